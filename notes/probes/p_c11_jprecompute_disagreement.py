import torch, random, warnings, sys
import fggs as FG
from fggs.semirings import *
torch.set_num_threads(1)
rng=random.Random(int(sys.argv[1]))
def rand_fgg():
    g=FG.FGG('S')
    doms={'A':rng.choice([1,2,3]),'B':rng.choice([2,3])}
    for k,v in doms.items(): g.new_finite_domain(k,list(range(v)))
    facs={}
    def mkrule(lhs, ext_n, nts):
        rhs=FG.Graph()
        nodes=[rhs.new_node(rng.choice('AB')) for _ in range(rng.choice([1,2,3,4]))]
        ne=rng.choice([1,2,3,4])
        for i in range(ne):
            ar=rng.choice([0,1,1,2,2])
            att=[rng.choice(nodes) for _ in range(ar)]
            name='t_'+''.join(n.label.name for n in att)
            rhs.new_edge(name,att,is_terminal=True)
            facs[name]=[n.label.name for n in att]
        for nt,ty in nts:
            cand=[[n for n in nodes if n.label.name==l] for l in ty]
            if all(cand):
                rhs.new_edge(nt,[rng.choice(c) for c in cand],is_nonterminal=True)
        return rhs
    # X: arity1 type A
    for _ in range(rng.choice([1,2])):
        rhs=mkrule('X',1,[('X',['A'])] if rng.random()<0.5 else [])
        ex=[n for n in rhs.nodes() if n.label.name=='A']
        if not ex: continue
        rhs.ext=[rng.choice(ex)]
        g.new_rule('X',rhs)
    for _ in range(rng.choice([1,2])):
        rhs=mkrule('S',0,[('X',['A'])])
        g.new_rule('S',rhs)
    for name,ty in facs.items():
        shape=[doms[l] for l in ty]
        g.new_finite_factor(name, torch.tensor([rng.choice([0.,0.1,0.2,0.3]) for _ in range(max(1,__import__('math').prod(shape)))],dtype=torch.float64).reshape(shape))
    return g
bad=0
for it in range(int(sys.argv[2])):
    try: g=rand_fgg()
    except Exception as e: continue
    res={}
    for jp in [False,True]:
        for m in ['fixed-point','newton']:
            try:
                with warnings.catch_warnings():
                    warnings.simplefilter('ignore')
                    for f in g.factors.values(): f.weights.physical.requires_grad_(True); f.weights.physical.grad=None
                    z=FG.sum_product(g,method=m,j_precompute=jp,semiring=RealSemiring(dtype=torch.float64),tol=1e-12,kmax=2000).to_dense()
                    z.backward()
                    gr=torch.cat([f.weights.physical.grad.flatten() for f in g.factors.values()])
                    res[(jp,m)]=(z.item(),gr)
            except Exception as e:
                res[(jp,m)]=('EXC',type(e).__name__+': '+str(e)[:80])
    base=res[(False,'fixed-point')]
    for k,v in res.items():
        if (v[0]=='EXC')!=(base[0]=='EXC') or (v[0]!='EXC' and (abs(v[0]-base[0])>1e-8*(1+abs(base[0])) or not torch.allclose(v[1],base[1],rtol=1e-6,atol=1e-9))):
            bad+=1
            if bad<=40 and (base[0]=="EXC" or k[0]==False): print("DIFF", base,k,v[0] if v[0]!='EXC' else v, "base",base[0], [ (r.lhs.name,len(r.rhs.nodes()),[(e.label.name) for e in r.rhs.edges()]) for r in g.all_rules()])
            break
print("bad",bad)
