import torch, json, warnings, sys, numpy as np
import fggs as FG
from fggs.semirings import *
import torch_semiring_einsum as tse, torch_semiring_einsum.equation as EQ
torch.set_num_threads(1)
# (6) count blocks
oget = EQ.get_summed_variable_indexes
blocks=[]
def cnt(equation,args,variables,block_size,output_dtypes):
    r=list(oget(equation,args,variables,block_size,output_dtypes)); blocks.append(len(r)); return r
EQ.get_summed_variable_indexes=cnt
g = FG.json_to_fgg(json.load(open('/repo/test/hmm.json')))
for mb in [1<<30, 4096, 64, 8]:
    tse.AUTOMATIC_BLOCK_SIZE.max_cpu_bytes=mb; blocks.clear()
    z=FG.sum_product(g, method='newton').to_dense()
    print(mb, z.item(), "einsum calls", len(blocks), "multi-block", sum(b>1 for b in blocks), "max", max(blocks))
tse.AUTOMATIC_BLOCK_SIZE.max_cpu_bytes=1<<30
# (2) bitwise reproducibility
import itertools
res={}
for rep in range(3):
    for m in ['fixed-point','newton','linear']:
        for S in [RealSemiring, LogSemiring]:
            gg=g
            if S is LogSemiring:
                gg=g.copy()
                for f in gg.factors.values(): f.weights=f.weights.log()
            z=FG.sum_product(gg, method=m, semiring=S()).to_dense()
            key=(m,S.__name__)
            b=z.numpy().tobytes()
            if key in res and res[key]!=b: print("NOT BITWISE", key)
            res[key]=b
print("bitwise ok", len(res))
# (1) bound check on quadratic example x = p x^2 + (1-p)
for p in [0.25, 0.4, 0.45]:
    g2 = FG.json_to_fgg(json.load(open('/repo/test/simplefgg.json')))
    g2.new_finite_factor('fac1', torch.tensor(p,dtype=torch.float64)); g2.new_finite_factor('fac2', torch.tensor(1-p,dtype=torch.float64))
    xs=min(1,(1-p)/p); Js=2*p*xs
    for tol in [1e-3,1e-5,1e-7]:
        for m in ['fixed-point','newton']:
            z=FG.sum_product(g2, method=m, tol=tol, semiring=RealSemiring(dtype=torch.float64)).to_dense().item()
            print(p, tol, m, "err", xs-z, "bound", tol/(1-Js))
