import torch, fggs, warnings, math
from fggs.semirings import *
from math import inf
def mk(w, disc=True, sem=None):
    g = fggs.FGG('S')
    rhs = fggs.Graph()
    v1 = rhs.new_node('T')
    if disc: v2 = rhs.new_node('T')
    rhs.new_edge('f',[v1],is_terminal=True)
    g.new_rule('S', rhs)
    g.new_finite_domain('T',[0,1,2])
    g.new_finite_factor('f', torch.tensor(w))
    return g
for sem in [RealSemiring(), LogSemiring(), ViterbiSemiring()]:
    w = [0.,0.,0.] if isinstance(sem, RealSemiring) else [-inf,-inf,-inf]
    print(type(sem).__name__, fggs.sum_product(mk(w), semiring=sem).to_dense())
# C02: weight-one cycle in viterbi
def cyc(w, sem, method):
    g = fggs.FGG('S')
    rhs = fggs.Graph(); rhs.new_edge('a',[],is_terminal=True); rhs.new_edge('S',[],is_nonterminal=True); g.new_rule('S', rhs)
    rhs = fggs.Graph(); rhs.new_edge('b',[],is_terminal=True); g.new_rule('S', rhs)
    g.new_finite_factor('a', torch.tensor(w)); g.new_finite_factor('b', torch.tensor(-1.0 if not isinstance(sem,RealSemiring) else 0.5))
    with warnings.catch_warnings(record=True) as ws:
        warnings.simplefilter('always')
        z = fggs.sum_product(g, semiring=sem, method=method, kmax=5)
    return z.to_dense().item(), [str(x.message) for x in ws]
for m in ['fixed-point','newton','linear']:
    print('viterbi cycle weight one', m, cyc(0.0, ViterbiSemiring(), m))
    print('real 0.9 kmax=5', m, cyc(0.9, RealSemiring(), m))
