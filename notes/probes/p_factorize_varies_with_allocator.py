import torch, fggs, random, json, sys
from fggs import fggs as F
seed=int(sys.argv[1]); rng=random.Random(seed)
F._id = lambda o: rng.getrandbits(40)
def build():
    g = fggs.HRG('S')
    rhs = fggs.Graph()
    vs = [rhs.new_node('T') for _ in range(6)]
    for i in range(5): rhs.new_edge('f',[vs[i],vs[i+1]],is_terminal=True)
    rhs.new_edge('g',[vs[0],vs[3]],is_terminal=True)
    rhs.ext=[]
    g.new_rule('S', rhs)
    return g
g=build()
for m in ['min_fill','quickbb','acb']:
    r = fggs.factorize_hrg(g, method=m)
    print(m, [ (rr.lhs.name, len(rr.rhs.ext), len(rr.rhs.nodes()), sorted(e.label.name for e in rr.rhs.edges())) for rr in r.all_rules()])
