import torch, fggs, json, warnings
from fggs import *
from fggs.semirings import *
from fggs.multi import *
from math import inf
def show(f):
    try: r=f(); print("  ->", r)
    except Exception as e: print("  EXC", type(e).__name__, str(e)[:160])
print("C09 real solve rho>=1 / inf entries")
R=RealSemiring(dtype=torch.float64)
show(lambda: R.solve(torch.tensor([[1.0]],dtype=torch.float64), torch.tensor([1.0],dtype=torch.float64)))
show(lambda: R.solve(torch.tensor([[1.0]],dtype=torch.float64), torch.tensor([0.0],dtype=torch.float64)))
show(lambda: R.solve(torch.tensor([[2.0,0],[0,0.5]],dtype=torch.float64), torch.tensor([1.0,1.0],dtype=torch.float64)))
show(lambda: R.solve(torch.tensor([[0.,1.],[1.,0.]],dtype=torch.float64), torch.tensor([1.0,0.0],dtype=torch.float64)))
show(lambda: R.solve(torch.tensor([[0.,2.],[1.,0.]],dtype=torch.float64), torch.tensor([0.0,0.0],dtype=torch.float64)))
show(lambda: R.solve(torch.tensor([[0.,inf],[0.,0.]],dtype=torch.float64), torch.tensor([0.0,1.0],dtype=torch.float64)))
show(lambda: R.solve(torch.tensor([[0.,inf],[0.,0.]],dtype=torch.float64), torch.tensor([1.0,0.0],dtype=torch.float64)))
# upper-triangular with rho>1 on unreachable component
show(lambda: R.solve(torch.tensor([[0.5,0.],[1.,3.]],dtype=torch.float64), torch.tensor([1.0,0.0],dtype=torch.float64)))
show(lambda: R.solve(torch.tensor([[0.5,1.],[0.,3.]],dtype=torch.float64), torch.tensor([1.0,0.0],dtype=torch.float64)))
V=ViterbiSemiring(dtype=torch.float64)
show(lambda: V.solve(torch.tensor([[0.0]],dtype=torch.float64), torch.tensor([-1.0],dtype=torch.float64)))
show(lambda: V.solve(torch.tensor([[-1.0]],dtype=torch.float64), torch.tensor([-1.0],dtype=torch.float64)))
L=LogSemiring(dtype=torch.float64)
show(lambda: L.solve(torch.tensor([[0.0]],dtype=torch.float64), torch.tensor([-1.0],dtype=torch.float64)))
show(lambda: L.solve(torch.tensor([[0.0]],dtype=torch.float64), torch.tensor([-inf],dtype=torch.float64)))
B=BoolSemiring()
show(lambda: B.solve(torch.tensor([[False,True],[True,False]]), torch.tensor([True,False])))
print("newton kmax=0")
g = fggs.json_to_fgg(json.load(open('/repo/test/simplefgg.json')))
g.new_finite_factor('fac1', 0.25); g.new_finite_factor('fac2', 0.75)
show(lambda: fggs.sum_product(g, method='newton', kmax=0).to_dense())
show(lambda: fggs.sum_product(g, method='fixed-point', kmax=0).to_dense())
show(lambda: fggs.sum_product(g, method='newton', kmax=1).to_dense())
show(lambda: fggs.sum_product(g, method='linear').to_dense())
