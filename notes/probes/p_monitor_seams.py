import torch, json, warnings, random
import fggs as FG
import sys; SP=sys.modules["fggs.sum_product"]; MU=sys.modules["fggs.multi"]; IX=sys.modules["fggs.indices"]
from fggs.semirings import *
events=[]
# step monitor on F, stop monitor, scc monitor, order monitor, post_init monitor
oF=SP.F
def F(fgg,x,inputs,semiring):
    r=oF(fgg,x,inputs,semiring); events.append(('F',{k.name:float(v.to_dense().sum()) for k,v in r.items()})); return r
SP.F=F
oa=MU.MultiTensor.allclose
def ac(self,other,tol):
    r=oa(self,other,tol); events.append(('stop?',r)); return r
MU.MultiTensor.allclose=ac; MU.MultiTensor.shouldStop=ac
oscc=SP.scc
def scc(g):
    r=oscc(g); events.append(('scc',[[x.name for x in c] for c in r])); return r
SP.scc=scc
oo=MU._order_nonterminals
def order(a):
    r=oo(a); events.append(('order',[getattr(x,'name',x) for x in r])); return r
MU._order_nonterminals=order
opi=IX.PatternedTensor.__post_init__
n=[0]
def pi(self):
    opi(self); n[0]+=1
IX.PatternedTensor.__post_init__=pi
oap=SP.SumProduct.apply_to_patterned_tensors
def ap(fgg,opts,in_labels,out_labels,*vals):
    events.append(('scc-solve',opts['method'],[l.name for l in out_labels])); return oap(fgg,opts,in_labels,out_labels,*vals)
SP.SumProduct.apply_to_patterned_tensors=staticmethod(ap)
g = FG.json_to_fgg(json.load(open('/repo/test/simplefgg.json')))
g.new_finite_factor('fac1', 0.25); g.new_finite_factor('fac2', 0.75)
with warnings.catch_warnings(record=True) as ws:
    warnings.simplefilter('always')
    z=FG.sum_product(g, method='fixed-point', kmax=4, tol=1e-6)
print(z.to_dense(), [str(w.message) for w in ws]); print(events[:12]); print("constructions", n[0])
events.clear()
z=FG.sum_product(g, method='newton', kmax=50, tol=1e-6); print(z.to_dense()); print([e for e in events if e[0]!='F'][:8])
