# Throw-away probe: is my notion of "well-typed pattern" the one under which
# fggs' binary ops / where / equal agree with dense torch, without any
# "index type mismatch" warning?
import random, warnings, sys, itertools, math
import torch
from fggs.indices import *
import fggs.indices as IX
torch.set_num_threads(1)

class T: pass
class Atom(T):
    def __init__(s,n): s.n=n
    def numel(s): return s.n
class Prod(T):
    def __init__(s,fs): s.fs=fs
    def numel(s): return math.prod(f.numel() for f in s.fs)
class Sum(T):
    def __init__(s,ts): s.ts=ts
    def numel(s): return sum(t.numel() for t in s.ts)

def rand_type(rng, depth=2):
    r=rng.random()
    if depth==0 or r<0.5: return Atom(rng.choice([1,2,2,3,3,4]))
    if r<0.75: return Prod([rand_type(rng,depth-1) for _ in range(rng.choice([2,2,3]))])
    return Sum([rand_type(rng,depth-1) for _ in range(rng.choice([2,2,3]))])

def pattern(rng, ty, pool):
    """pool: dict numel->list of PhysicalAxis already used in this tensor (for sharing)."""
    n=ty.numel()
    def fresh(n):
        if n==1: return unitAxis
        if rng.random()<0.25 and pool.get(n):
            return rng.choice(pool[n])
        k=PhysicalAxis(n); pool.setdefault(n,[]).append(k); return k
    if isinstance(ty,Atom) or rng.random()<0.3:
        return fresh(n)
    if isinstance(ty,Prod):
        return productAxis([pattern(rng,f,pool) for f in ty.fs])
    i=rng.randrange(len(ty.ts))
    before=sum(t.numel() for t in ty.ts[:i]); after=sum(t.numel() for t in ty.ts[i+1:])
    return SumAxis(before, pattern(rng,ty.ts[i],pool), after)

def mk(rng, types, default):
    pool={}
    vaxes=tuple(pattern(rng,t,pool) for t in types)
    paxes=[]
    for e in vaxes:
        for k in e.fv({}):
            if k not in paxes: paxes.append(k)
    rng.shuffle(paxes)
    phys=torch.tensor([rng.choice([0.,1.,-1.5,2.25,3.]) for _ in range(math.prod(k._numel for k in paxes))]).reshape([k._numel for k in paxes]) if paxes else torch.tensor(rng.choice([0.,1.,2.5]))
    return PatternedTensor(phys, tuple(paxes), vaxes, default)

def dense_ref(t):
    # independent evaluation of the denotation
    out=torch.full(tuple(e.numel() for e in t.vaxes), float(t.default))
    ranges=[range(k._numel) for k in t.paxes]
    for idx in itertools.product(*ranges):
        env=dict(zip(t.paxes,idx))
        v=[]
        for e in t.vaxes:
            o,s=e.stride({})
            v.append(o+sum(c*env[k] for k,c in s.items()))
        out[tuple(v)]=t.physical[idx] if idx else t.physical
    return out

rng=random.Random(int(sys.argv[1])); N=int(sys.argv[2])
bad=0; warns=0; inj=0
for it in range(N):
    nd=rng.choice([1,2,2,3])
    types=[rand_type(rng) for _ in range(nd)]
    if math.prod(t.numel() for t in types)>200: continue
    t=mk(rng,types,rng.choice([0.,0.,1.,-math.inf,2.]))
    u=mk(rng,types,rng.choice([0.,0.,1.,-math.inf,2.]))
    with warnings.catch_warnings(record=True) as ws:
        warnings.simplefilter('always')
        try:
            td,ud=t.to_dense(),u.to_dense()
            if not torch.equal(td,dense_ref(t)): bad+=1; print("to_dense mismatch", t.depict(IX.debugging_letterer))
            for name,f,g in [('add',lambda:t.add(u),lambda:td+ud),('mul',lambda:t.mul(u),lambda:td*ud),('max',lambda:t.maximum(u),lambda:torch.maximum(td,ud)),('sub',lambda:t.sub(u),lambda:td-ud)]:
                r=f().to_dense(); e=g()
                if not torch.equal(r.nan_to_num(nan=123.),e.nan_to_num(nan=123.)): bad+=1; print("MISMATCH",name,t.depict(IX.debugging_letterer),u.depict(IX.debugging_letterer))
            eq=t.equal(u)
            if eq!=torch.equal(td,ud): bad+=1; print("EQUAL mismatch",eq, t.depict(IX.debugging_letterer),u.depict(IX.debugging_letterer))
            c=mk(rng,types,False); c=PatternedTensor(c.physical>1, c.paxes, c.vaxes, rng.random()<0.5)
            w=t.where(c,u).to_dense(); e=torch.where(c.to_dense(),td,ud)
            if not torch.equal(w,e): bad+=1; print("WHERE mismatch",t.depict(IX.debugging_letterer),c.depict(IX.debugging_letterer),u.depict(IX.debugging_letterer))
        except Exception as ex:
            bad+=1; print("EXC",type(ex).__name__,str(ex)[:150], t.depict(IX.debugging_letterer),u.depict(IX.debugging_letterer))
    if ws:
        warns+=1
        if warns<4: print("WARN", str(ws[0].message)[:140])
print("iters",N,"bad",bad,"runs-with-warnings",warns)
