import torch, fggs, random, sys, torch_semiring_einsum as tse
from fggs.semirings import *
from fggs.indices import *
import fggs.indices as I
# block-size knob
A = tse.AUTOMATIC_BLOCK_SIZE
print("default max_cpu_bytes", A.max_cpu_bytes)
a = PatternedTensor(torch.rand(7,9)); b = PatternedTensor(torch.rand(9,5))
for mb in [1<<30, 4096, 1024, 600, 300, 100, 8]:
    A.max_cpu_bytes = mb
    try:
        for sem in [RealSemiring(), LogSemiring(), ViterbiSemiring()]:
            r = a.mm(b, sem).to_dense()
        print(mb, "ok", r.sum().item())
    except Exception as e:
        print(mb, "EXC", type(e).__name__, str(e)[:100])
A.max_cpu_bytes = 1<<30
# viterbi forward
import inspect
print(inspect.signature(tse.log_viterbi_einsum_forward))
# hash patch on PhysicalAxis
rng = random.Random(int(sys.argv[1]))
def h(self):
    try: return self.__dict__['_vh']
    except KeyError:
        v = rng.getrandbits(60); object.__setattr__(self,'_vh',v); return v
I.PhysicalAxis.__hash__ = h
k1,k2,k3 = PhysicalAxis(2),PhysicalAxis(3),PhysicalAxis(4)
print([k._numel for k in frozenset([k1,k2,k3])])
c = PatternedTensor(torch.rand(2,3,4)>0.5, (k1,k2,k3),(k1,k2,k3), False)
t = PatternedTensor(torch.rand(2,3,4)); u = PatternedTensor(torch.rand(2,3,4))
w = t.where(c,u)
print(w.physical.stride(), torch.equal(w.to_dense(), torch.where(c.to_dense(), t.to_dense(), u.to_dense())))
# linalg fault injection
orig = torch.linalg.solve
cnt=[0]
def faulty(a,b,*k,**kw):
    cnt[0]+=1
    raise torch.linalg.LinAlgError("injected: singular")
sem = RealSemiring()
a = torch.rand(4,4)*0.2; b=torch.rand(4)
x0 = sem.solve(a,b)
torch.linalg.solve = faulty
x1 = sem.solve(a,b)
torch.linalg.solve = orig
print("fault injected", cnt, torch.allclose(x0,x1), (x0-x1).abs().max().item())
