import torch
from fggs import *
def show(f):
    try: r=f(); print("  ->", r)
    except Exception as e: print("  EXC", type(e).__name__, str(e)[:160])
g=FGG('S')
g.new_finite_domain('T',[0,1])
el=EdgeLabel('f',[NodeLabel('T')],is_terminal=True)
g.add_edge_label(el)
show(lambda: g.new_finite_factor('f',[1.,2.]))
show(lambda: g.new_finite_factor('f',[3.,4.]))
print(g.factors['f'].weights.to_dense())
show(lambda: g.add_factor(el, FiniteFactor([g.domains['T']],[5.,6.])))
print(g.factors['f'].weights.to_dense())
show(lambda: g.new_finite_domain('T',[0,1,2]))
# remove_node by id/label confusion
gr=Graph(); a=gr.new_node('A',id='x'); gr.new_edge('e',[a],is_terminal=True,id='e1')
show(lambda: gr.remove_node(Node(NodeLabel('B'),id='x')))
print([n.id for n in gr.nodes()], [[n in gr.nodes() for n in e.nodes] for e in gr.edges()])
# mutate after share
h=HRG('S'); rhs=Graph(); v=rhs.new_node('A'); r=h.new_rule('S',rhs)
rhs.ext=[v]; print("lhs type", h.all_rules()[0].lhs.type, "rhs type", h.all_rules()[0].rhs.type)
# FiniteDomain dup / contains / weird
d=FiniteDomain([1,True,'a']); print(d.size(), d.numberize(True), d.denumberize(0), d.contains(1))
show(lambda: FiniteFactor([FiniteDomain([0,1])],[[1.,2.]]))
show(lambda: FiniteFactor([FiniteDomain([])],[]).weights.shape)
show(lambda: FiniteFactor([RangeDomain(2)], torch.tensor([1.,2.])).apply([1]))
