#!/venv/bin/python
"""CLI of the fggs simulator.

  check.py check <Cxx> [--tier quick|thorough]      decide one property (exit 0 / 1 VIOLATION / 2 harness)
  check.py replay <file>                            re-execute a replay file in a fresh interpreter
  check.py selftest determinism [--props ...] [--n N]
"""
import argparse
import json
import os
import sys

sys.path.insert(0, os.path.dirname(os.path.abspath(__file__)))
os.environ.setdefault('FGGS_VERIF', '1')

from simfggs import runner  # noqa: E402


def main():
    ap = argparse.ArgumentParser()
    sub = ap.add_subparsers(dest='cmd', required=True)
    c = sub.add_parser('check')
    c.add_argument('prop')
    c.add_argument('--tier', default=os.environ.get('VERIF_TIER', 'quick'))
    r = sub.add_parser('replay')
    r.add_argument('path')
    s = sub.add_parser('selftest')
    s.add_argument('what')
    s.add_argument('--props', default='')
    s.add_argument('--n', type=int, default=200)
    a = ap.parse_args()
    if a.cmd == 'check':
        sys.exit(runner.check(a.prop, a.tier))
    if a.cmd == 'replay':
        rr = runner.replay_file(a.path)
        rf = json.load(open(a.path))
        print(json.dumps({'status': rr.get('status'), 'reproduced': rr.get('reproduced'),
                          'same_digest': rr.get('same_digest'), 'violations': rr.get('violations'),
                          'trace': rr.get('trace')}, indent=1))
        if rr.get('reproduced'):
            print(f"VIOLATION property={rf['property']} replay={a.path}")
            sys.exit(1)
        sys.exit(0 if rr.get('status') in ('ok', 'discard') else 2)
    if a.cmd == 'selftest':
        from simfggs import selftest
        sys.exit(selftest.main(a.what, a.props.split(',') if a.props else None, a.n))


if __name__ == '__main__':
    main()
