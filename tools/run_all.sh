#!/bin/bash
# run every registered quick (or thorough) check; print one line per property
tier=${1:-quick}
cd /verif
rc_all=0
for p in $(python3 -c "import json; print(' '.join(c['property_id'] for c in json.load(open('/verif/MANIFEST.json'))['checks']))"); do
  out=$(/venv/bin/python /verif/check.py check $p --tier $tier 2>/tmp/run_all_$p.err | grep -v "conda WARNING")
  rc=${PIPESTATUS[0]}
  echo "$out" | grep -E "^\[|^VIOLATION|^KNOWN" | cut -c1-260
  echo "   exit=$rc"
  [ $rc -ne 0 ] && rc_all=1 && tail -5 /tmp/run_all_$p.err | cut -c1-300
done
exit $rc_all
