#!/bin/bash
# apply each semantics-preserving patch in the scratch worktree, check that the test suite still passes and that
# every listed check stays silent (exit 0, no VIOLATION)
W=/tmp/wt2/dev2
out=/verif/benign/RESULTS.jsonl; : > $out
for d in /verif/benign/B*/; do
  name=$(basename $d)
  cd $W && git reset -q --hard HEAD && git apply $d/patch.diff || { echo "{\"name\":\"$name\",\"applies\":false}" >> $out; continue; }
  tests=$(/venv/bin/python -m pytest -q -p no:cacheprovider --timeout=900 -x 2>&1 | tail -1)
  for p in $(python3 -c "import json;print(' '.join(json.load(open('$d/meta.json'))['checks']))"); do
    cd /verif
    res=$(VERIF_REPLAY_DIR=/tmp/wt2/replays_b VERIF_EVIDENCE_DIR=/tmp/wt2/evidence_b FGGS_REPO=$W /venv/bin/python /verif/check.py check $p --tier quick 2>/dev/null | grep -v "conda WARNING"); rc=$?
    nv=$(echo "$res" | grep -c "^VIOLATION")
    sig=$(echo "$res" | grep -m1 "signature=" | sed 's/.*signature=\(\[[^]]*\]\).*/\1/' | tr '"' "'")
    echo "{\"name\":\"$name\",\"check\":\"$p\",\"tests\":\"$tests\",\"violations\":$nv,\"first_signature\":\"$sig\"}" >> $out
    tail -1 $out
  done
  cd $W && git reset -q --hard HEAD
done
