#!/bin/bash
# usage: try_mutant_w.sh <worktree> <patch> <prop> [lines]   -- like try_mutant_dev.sh with an explicit scratch worktree
W=$1; patch=$2; prop=$3
tag=$(basename $W)
cd $W && git checkout -q --detach $(git -C /repo rev-parse HEAD) 2>/dev/null; git reset -q --hard HEAD
git apply --3way "$patch" 2>/tmp/apply_$tag.err || git apply "$patch" || { echo "PATCH DOES NOT APPLY"; head -5 /tmp/apply_$tag.err; git reset -q --hard HEAD; exit 3; }
git reset -q
cd /verif
VERIF_REPLAY_DIR=/tmp/wt2/replays_$tag VERIF_EVIDENCE_DIR=/tmp/wt2/evidence_$tag FGGS_REPO=$W /venv/bin/python /verif/check.py check "$prop" --tier quick 2>&1 | grep -v "conda WARNING" | grep -E "^\[|VIOLATION|signature|HARNESS|NONDET|WORKER" | grep -v KNOWN | cut -c1-330 | head -${4:-3}
cd $W && git reset -q --hard HEAD
