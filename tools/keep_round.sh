#!/bin/bash
# usage: tools/keep_round.sh <round-dir e.g. /tmp/r4> <round tag e.g. r4> <props...>  -- confirm and keep every delivered change
rd=$1; tag=$2; shift 2
for p in "$@"; do
  for n in 1 2 3; do
    [ -f $rd/$p/$n/patch.diff ] || continue
    [ -d /verif/seeded/$p-$tag-$n ] && continue
    /verif/tools/keep_mutant.sh $rd/$p/$n $p-$tag-$n
  done
done
