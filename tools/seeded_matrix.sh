#!/bin/bash
# Apply every kept seeded change (or the ids given as arguments) in a scratch worktree of /repo HEAD (FGGS_REPO), run the
# quick check of its property against that worktree, and record what caught it in seeded/RESULTS.jsonl.
# /repo itself is never touched; evidence and replay files go to scratch directories.
W=${MATRIX_WT:-/tmp/wt2/matrix}
S=${W}_scratch
mkdir -p /tmp/wt2 $S
[ -d $W ] || git -C /repo worktree add --detach $W HEAD >/dev/null 2>&1
cd $W && git checkout -q --detach $(git -C /repo rev-parse HEAD) && git reset -q --hard HEAD
out=${MATRIX_OUT:-/verif/seeded/RESULTS.jsonl}
touch $out
ids="$@"
[ -z "$ids" ] && ids=$(cd /verif/seeded && ls -d C*/ | tr -d /)
for id in $ids; do
  d=/verif/seeded/$id; prop=${id%%-*}
  cd $W; git reset -q --hard HEAD
  git apply --3way $d/patch.diff >/dev/null 2>&1 || git apply $d/patch.diff || { grep -v "\"id\":\"$id\"" $out > $out.tmp; mv $out.tmp $out; echo "{\"id\":\"$id\",\"applies\":false}" >> $out; git reset -q --hard HEAD; continue; }
  git reset -q
  cd /verif
  res=$(VERIF_REPLAY_DIR=$S/replays VERIF_EVIDENCE_DIR=$S/evidence FGGS_REPO=$W /venv/bin/python /verif/check.py check $prop --tier quick 2>/dev/null | grep -v "conda WARNING")
  sig=$(echo "$res" | grep -m1 "signature=" | sed 's/.*signature=\(\[[^]]*\]\).*/\1/')
  nviol=$(echo "$res" | grep -m1 "^\[" | sed -n "s/.*'violation': \([0-9]*\).*/\1/p")
  runs=$(echo "$res" | grep -m1 "^\[" | sed -n "s/.*runs=\([0-9]*\).*/\1/p")
  caught=$(echo "$res" | grep -c "^VIOLATION")
  grep -v "\"id\":\"$id\"" $out > $out.tmp; mv $out.tmp $out
  echo "{\"id\":\"$id\",\"property\":\"$prop\",\"caught\":$([ $caught -gt 0 ] && echo true || echo false),\"violating_runs\":${nviol:-0},\"runs\":${runs:-0},\"first_signature\":\"$(echo $sig | tr '"' "'")\"}" >> $out
  tail -1 $out
done
cd $W && git reset -q --hard HEAD
sort -o $out $out
