#!/bin/bash
# apply every kept seeded change to /repo in turn, run the quick check of its property, record what caught it
cd /verif
out=/verif/seeded/RESULTS.jsonl
: > $out
for d in /verif/seeded/C*/; do
  id=$(basename $d); prop=${id%%-*}
  cd /repo; git diff --quiet || { echo "repo dirty"; exit 3; }
  git apply --3way $d/patch.diff >/dev/null 2>&1 || git apply $d/patch.diff || { echo "{\"id\":\"$id\",\"applies\":false}" >> $out; git reset -q --hard HEAD; continue; }
  git reset -q
  cd /verif
  res=$(VERIF_REPLAY_DIR=/tmp/wt2/replays_m VERIF_EVIDENCE_DIR=/tmp/wt2/evidence_m /venv/bin/python /verif/check.py check $prop --tier quick 2>/dev/null | grep -v "conda WARNING")
  rc=$?
  sig=$(echo "$res" | grep -m1 "signature=" | sed 's/.*signature=\(\[[^]]*\]\).*/\1/')
  nviol=$(echo "$res" | grep -m1 "^\[" | sed -n "s/.*'violation': \([0-9]*\).*/\1/p")
  runs=$(echo "$res" | grep -m1 "^\[" | sed -n "s/.*runs=\([0-9]*\).*/\1/p")
  caught=$(echo "$res" | grep -c "^VIOLATION")
  echo "{\"id\":\"$id\",\"property\":\"$prop\",\"caught\":$([ $caught -gt 0 ] && echo true || echo false),\"violating_runs\":${nviol:-0},\"runs\":${runs:-0},\"first_signature\":\"$(echo $sig | tr '"' "'")\"}" >> $out
  cd /repo; git reset -q --hard HEAD
  tail -1 $out
done
