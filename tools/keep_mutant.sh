#!/bin/bash
# usage: tools/keep_mutant.sh <srcdir with patch.diff demo.py meta.json> <seeded-id>
# Confirms in a scratch worktree of /repo HEAD: patch applies, test suite passes with it, demo fails with it and passes without.
set -u
src=$1; id=$2
W=/tmp/wt2/verify
[ -d $W ] || git -C /repo worktree add --detach $W HEAD >/dev/null 2>&1
cd $W && git checkout -q --detach $(git -C /repo rev-parse HEAD) && git checkout -- . 
git apply --3way $src/patch.diff 2>/tmp/apply.err || git apply $src/patch.diff || { echo "$id: PATCH DOES NOT APPLY"; cat /tmp/apply.err; git checkout -- .; exit 1; }
git reset -q
tests=$(/venv/bin/python -m pytest -q -p no:cacheprovider --timeout=900 -x 2>&1 | tail -1)
FGGS_ROOT=$W timeout 120 /venv/bin/python $src/demo.py >/tmp/demo_with.out 2>&1; with=$?
git diff > /tmp/rebased.diff
git checkout -- .
FGGS_ROOT=$W timeout 120 /venv/bin/python $src/demo.py >/tmp/demo_without.out 2>&1; without=$?
echo "$id: tests[$tests] demo_with=$with demo_without=$without"
if echo "$tests" | grep -q "110 passed" && [ $with -ne 0 ] && [ $without -eq 0 ]; then
  mkdir -p /verif/seeded/$id && cp /tmp/rebased.diff /verif/seeded/$id/patch.diff && cp $src/demo.py /verif/seeded/$id/demo.py
  python3 - "$src/meta.json" "/verif/seeded/$id/meta.json" "$tests" <<'PY'
import json,sys
m=json.load(open(sys.argv[1]))
m['confirmed']={'worktree':'scratch worktree of /repo HEAD','tests_with_patch':sys.argv[3].strip(),'demo_with_patch':'exit!=0','demo_without_patch':'exit 0',
 'cmd':'tools/keep_mutant.sh'}
json.dump(m,open(sys.argv[2],'w'),indent=1)
PY
  echo "  kept"
else echo "  NOT kept"; tail -3 /tmp/demo_without.out; fi
