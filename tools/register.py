import json, sys
p, text, tech = sys.argv[1], sys.argv[2], sys.argv[3]
m=json.load(open('/verif/MANIFEST.json'))
m['checks']=[c for c in m['checks'] if c['property_id']!=p]
m['checks'].append({'property_id': p,'quick_cmd': f'/venv/bin/python /verif/check.py check {p} --tier quick','thorough_cmd': f'/venv/bin/python /verif/check.py check {p} --tier thorough','evidence_file': f'/verif/evidence/{p}.json','replay_cmd_template': '/venv/bin/python /verif/check.py replay {path}','engine':'simfggs','level_claimed':{'category':'exploration','text':text,'design_ref':'DESIGN.md §5 '+p},'level_note':'trusted base: the reference model/oracles under /verif/simfggs, CPython, torch, numpy, networkx; real fggs code from /repo working tree runs unmodified with run-time seams (FGGS_VERIF=1)','technique':tech})
m['checks'].sort(key=lambda c:c['property_id'])
m['not_applicable']=[n for n in m['not_applicable'] if n['property_id']!=p]
if p not in m['engines'][0]['serves_properties']: m['engines'][0]['serves_properties'].append(p)
json.dump(m, open('/verif/MANIFEST.json','w'), indent=1)
