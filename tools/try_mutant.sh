#!/bin/bash
# usage: tools/try_mutant.sh <patch.diff> <prop> [tier]   -- apply a seeded change to /repo, run the check, always revert
set -u
patch=$1; prop=$2; tier=${3:-quick}
cd /repo || exit 3
if ! git diff --quiet; then echo "repo dirty"; exit 3; fi
git apply --3way "$patch" 2>/tmp/apply.err || git apply "$patch" || { echo "PATCH DOES NOT APPLY"; cat /tmp/apply.err; git reset -q --hard HEAD; exit 3; }
git reset -q   # unstage 3way result
cd /verif
VERIF_REPLAY_DIR=/tmp/wt2/replays_m VERIF_EVIDENCE_DIR=/tmp/wt2/evidence_m /venv/bin/python /verif/check.py check "$prop" --tier "$tier" 2>&1 | grep -v "conda WARNING" | grep -E "^\[|VIOLATION|KNOWN|signature|HARNESS|NONDET|WORKER" | cut -c1-400
rc=${PIPESTATUS[0]}
cd /repo && git reset -q --hard HEAD && git status --short | grep -v egg-info
echo "exit=$rc"
