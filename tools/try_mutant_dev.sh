#!/bin/bash
# like try_mutant.sh but in the scratch worktree /tmp/wt2/dev (FGGS_REPO), so /repo itself is not touched
patch=$1; prop=$2; tier=${3:-quick}
W=/tmp/wt2/dev3
cd $W && git checkout -q --detach $(git -C /repo rev-parse HEAD) 2>/dev/null; git reset -q --hard HEAD
git apply --3way "$patch" 2>/tmp/apply_dev.err || git apply "$patch" || { echo "PATCH DOES NOT APPLY"; cat /tmp/apply_dev.err | head -5; git reset -q --hard HEAD; exit 3; }
git reset -q
cd /verif
VERIF_REPLAY_DIR=/tmp/wt2/replays3 VERIF_EVIDENCE_DIR=/tmp/wt2/evidence3 FGGS_REPO=$W /venv/bin/python /verif/check.py check "$prop" --tier "$tier" 2>&1 | grep -v "conda WARNING" | grep -E "^\[|VIOLATION|signature|HARNESS|NONDET|WORKER" | cut -c1-330 | head -${4:-4}
cd $W && git reset -q --hard HEAD
