"""Proving the simulator itself: determinism of every engine.

  check.py selftest determinism [--props C16,C15] [--n 200]

For every property: run the first n seeds (a) in one worker, (b) again spread over 3 workers, (c) again under another
PYTHONHASHSEED, each in fresh interpreters; (a) and (b) must agree digest for digest (worker-count independence,
run-to-run repeatability); under another hash seed the *generated case* must be identical (the hash seed is a
controlled input of the system under test, not a leak in the harness) and every oracle must still pass.
"""
import json
import os
import shutil
import sys
import tempfile

from . import registry, runner


def _run(prop, seeds, nproc, hashseed, tmp, tag):
    procs, outs = [], []
    base = seeds[0]
    n = len(seeds)
    for w in range(nproc):
        out = os.path.join(tmp, f'{prop}-{tag}-{w}.jsonl')
        outs.append(out)
        procs.append(runner._spawn(prop, 'quick', f'{base + w}:{base + n}:{nproc}', out, hashseed=hashseed,
                                   replay_dir=os.path.join(tmp, 'rp'), shrink_budget=0))
    runner._wait(procs, 1800)
    recs = {}
    for o in outs:
        for r in runner._read(o):
            recs[r['seed']] = r
    return recs


def main(what, props, n):
    if what != 'determinism':
        print('unknown selftest', what)
        return 2
    props = props or sorted(registry.PROP_ENGINE)
    tmp = tempfile.mkdtemp(prefix='simfggs-selftest-')
    bad = 0
    report = {}
    try:
        for prop in props:
            seeds = list(range(7_000_000, 7_000_000 + n))
            a = _run(prop, seeds, 1, 0, tmp, 'a')
            b = _run(prop, seeds, 3, 0, tmp, 'b')
            c = _run(prop, seeds, 2, 12345, tmp, 'c')
            mism = [s for s in seeds if s in a and s in b and (a[s].get('digest') != b[s].get('digest') or a[s]['status'] != b[s]['status'])]
            missing = [s for s in seeds if s not in a or s not in b or s not in c]
            other_bad = [s for s in seeds if s in c and c[s]['status'] in ('violation', 'harness-error')
                         and not (s in a and a[s]['status'] == c[s]['status'])]
            same_under_other_hash = sum(1 for s in seeds if s in a and s in c and a[s].get('digest') == c[s].get('digest'))
            report[prop] = {'seeds': n, 'digest_mismatch_1_vs_3_workers': len(mism), 'missing': len(missing),
                            'new_failures_under_other_hashseed': len(other_bad),
                            'identical_digest_under_other_hashseed': same_under_other_hash}
            ok = not mism and not missing and not other_bad
            bad += 0 if ok else 1
            print(f'[selftest determinism] {prop}: {report[prop]} {"OK" if ok else "FAILED " + str((mism + other_bad)[:5])}')
            sys.stdout.flush()
    finally:
        shutil.rmtree(tmp, ignore_errors=True)
    os.makedirs(os.path.join(runner.VERIF, 'selftest'), exist_ok=True)
    runner.jdump({'selftest': 'determinism', 'report': report}, os.path.join(runner.VERIF, 'selftest', 'determinism.json'))
    return 0 if bad == 0 else 2
