"""Which engine decides which property."""
import importlib

PROP_ENGINE = {
    'C16': 'apihist', 'C20': 'apihist',
    'C15': 'replace',
    'C14': 'wire',
    'C12': 'present', 'C17': 'conjoin', 'C19': 'sccsim',
    'C05': 'factorize', 'C10': 'treedec',
    'C02': 'solver', 'C09': 'linsolve', 'C11': 'options',
    'C18': 'queryhist',
    'C06': 'tensorprog',
}


def engine_for(prop):
    return importlib.import_module('simfggs.engines.' + PROP_ENGINE[prop])
