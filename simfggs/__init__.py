"""simfggs: deterministic simulation with fault injection for diprism/fggs (see /verif/DESIGN.md)."""
