"""Worker process: executes a slice of seeds (or one replay file) for one property.

Started by file path in a fresh interpreter with pinned PYTHONHASHSEED / -O flags.
Writes one JSON line per run to --out.  All randomness comes from the seed.
"""
import argparse
import faulthandler
import json
import os
import signal
import sys
import time
import traceback

sys.path.insert(0, os.path.dirname(os.path.dirname(os.path.abspath(__file__))))

from simfggs import registry, shrink as shr            # noqa: E402
from simfggs.core import Violation, Discard, jdump, import_repo   # noqa: E402


class RunTimeout(Exception):
    pass


def _alarm(signum, frame):
    raise RunTimeout()


def run_case(engine, case, cap_s):
    """Execute one case; classify the outcome.  Never lets an oracle bug masquerade as a violation."""
    signal.signal(signal.SIGALRM, _alarm)
    signal.setitimer(signal.ITIMER_REAL, cap_s)
    try:
        res = engine.execute(case)
        res.setdefault('violations', [])
        res['status'] = 'violation' if res['violations'] else res.get('status', 'ok')
        return res
    except Discard as e:
        return {'status': 'discard', 'violations': [], 'why': str(e)}
    except RunTimeout:
        return {'status': 'timeout', 'violations': []}
    except Exception as ex:
        # an exception that escaped from library code (innermost frames under /repo/fggs) while the engine was driving a
        # well-formed workload is the library's answer, not a harness problem: report it as a violation of the property
        # being checked; anything raised by harness/oracle code stays a harness error (exit 2)
        tb = traceback.extract_tb(ex.__traceback__)
        from simfggs.core import REPO
        lib = os.path.realpath(REPO) + os.sep + 'fggs' + os.sep
        inner = [f for f in tb if not ('/torch/' in f.filename or '/torch_semiring_einsum/' in f.filename)]
        if inner and os.path.realpath(inner[-1].filename).startswith(lib) and not isinstance(ex, (MemoryError, KeyboardInterrupt)):
            fr = inner[-1]
            caller = next((f for f in reversed(tb) if '/simfggs/engines/' in f.filename), None)
            sig = [case.get('prop', '?'), 'library-exception', type(ex).__name__, fr.name]
            return {'status': 'violation', 'violations': [{'property': case.get('prop', '?'), 'clause': 'library-exception',
                                                            'features': sig[2:], 'signature': sig,
                                                            'detail': f'{type(ex).__name__}: {str(ex)[:300]} raised in {os.path.basename(fr.filename)}:{fr.name} '
                                                                      f'(called from {caller.name if caller else "?"})'}],
                    'digest': None, 'counters': {}, 'steps': 0, 'shape': None}
        return {'status': 'harness-error', 'violations': [], 'trace': traceback.format_exc()[-3000:]}
    finally:
        signal.setitimer(signal.ITIMER_REAL, 0)


def load_known(prop):
    p = os.path.join(os.path.dirname(os.path.dirname(os.path.abspath(__file__))), 'known_findings.json')
    try:
        kf = json.load(open(p))
    except FileNotFoundError:
        return []
    return [k for k in kf.get('findings', []) if k['property'] == prop and k.get('status') == 'open']


def is_known(sig, known):
    for k in known:
        ks = k['signature']
        if sig[:len(ks)] == ks:
            return k
    return None


def main():
    ap = argparse.ArgumentParser()
    ap.add_argument('--prop', required=True)
    ap.add_argument('--tier', default='quick')
    ap.add_argument('--seeds', default='')          # start:stop:step
    ap.add_argument('--deadline', type=float, default=0.0)  # unix time after which to stop starting runs
    ap.add_argument('--out', required=True)
    ap.add_argument('--replay', default='')
    ap.add_argument('--replay-dir', default='')
    ap.add_argument('--cap', type=float, default=60.0)
    ap.add_argument('--shrink-budget', type=int, default=400)
    ap.add_argument('--samples', type=int, default=2)
    args = ap.parse_args()
    faulthandler.enable()
    import_repo()
    engine = registry.engine_for(args.prop)
    known = load_known(args.prop)
    out = open(args.out, 'w')

    def emit(d):
        out.write(json.dumps(d, sort_keys=True, default=str) + '\n')
        out.flush()

    meta = {'hashseed': os.environ.get('PYTHONHASHSEED', ''), 'optimize': sys.flags.optimize}

    if args.replay:
        rf = json.load(open(args.replay))
        res = run_case(engine, rf['case'], args.cap)
        emit({'replay': args.replay, 'status': res['status'], 'violations': res['violations'],
              'digest': res.get('digest'), 'trace': res.get('trace'), **meta})
        return

    a, b, step = (int(x) for x in args.seeds.split(':'))
    nsample = 0
    nshrunk = 0
    seen_sigs = set()
    import gc
    nrun = 0
    for seed in range(a, b, step):
        if args.deadline and time.time() > args.deadline:
            break
        nrun += 1
        if nrun % 50 == 1:
            gc.collect()        # between runs only (see env.Env.__enter__)
        t0 = time.perf_counter()
        try:
            case = engine.generate(args.prop, seed, args.tier)
        except Exception:
            emit({'seed': seed, 'status': 'harness-error', 'trace': traceback.format_exc()[-3000:], **meta})
            continue
        res = run_case(engine, case, args.cap)
        rec = {'seed': seed, 'status': res['status'], 'digest': res.get('digest'),
               'counters': res.get('counters', {}), 'shape': res.get('shape'),
               'steps': res.get('steps', 0), 'nontrivial': res.get('nontrivial', True),
               'wall': round(time.perf_counter() - t0, 5), **meta}
        if res['status'] == 'harness-error':
            rec['trace'] = res.get('trace')
        if res['status'] == 'discard':
            rec['why'] = res.get('why')
        if res['status'] == 'ok' and nsample < args.samples:
            rec['sample'] = engine.describe(case) if hasattr(engine, 'describe') else case
            nsample += 1
        if res['violations']:
            # only violations of the property being checked are decided here; others are noted
            mine = [v for v in res['violations'] if v['property'] == args.prop]
            other = [v for v in res['violations'] if v['property'] != args.prop]
            rec['other_property_violations'] = [v['signature'] for v in other][:5]
            if not mine:
                rec['status'] = 'ok'
            else:
                v = mine[0]
                k = is_known(v['signature'], known)
                rec['violation'] = v
                if k is not None:
                    rec['status'] = 'known-finding'
                    rec['known_id'] = k['id']
                else:
                    sigkey = json.dumps(v['signature'])
                    budget = args.shrink_budget if (nshrunk < 2 and sigkey not in seen_sigs) else 0
                    seen_sigs.add(sigkey)
                    nshrunk += 1 if budget else 0
                    small, used = shr.shrink(lambda c: run_case(engine, c, args.cap), engine.reducers,
                                             case, v['signature'], budget=budget)
                    res2 = run_case(engine, small, args.cap)
                    v2 = next((x for x in res2['violations'] if x['signature'] == v['signature']), v)
                    rdir = args.replay_dir
                    os.makedirs(rdir, exist_ok=True)
                    base = os.path.join(rdir, f'{args.prop}-{seed}')
                    common = {'format': 1, 'property': args.prop, 'engine': registry.PROP_ENGINE[args.prop],
                              'seed': seed, 'tier': args.tier, 'hashseed': meta['hashseed'],
                              'optimize': meta['optimize'], 'signature': v['signature']}
                    jdump({**common, 'case': case, 'violation': v, 'digest': res.get('digest'), 'minimised': False},
                          base + '.found.json')
                    jdump({**common, 'case': small, 'violation': v2, 'digest': res2.get('digest'), 'minimised': True,
                           'shrink_replays': used}, base + '.json')
                    rec['replay'] = base + '.json'
                    rec['replay_found'] = base + '.found.json'
        emit(rec)


if __name__ == '__main__':
    main()
