"""Seams: every source of nondeterminism / fault surface the properties depend on is
owned here for the duration of one simulated run and restored afterwards.

No edit of /repo is needed: all seams are module/class attributes that the library looks
up at call time.  Installation refuses to happen unless FGGS_VERIF=1.
"""
import sys
import warnings
import weakref
import contextlib

from .rng import Stream
from .core import Counters, import_repo


class Allocator:
    """Replacement for fggs.fggs._id (= builtin id).

    mode 'order': unique ints in PRNG order with varying digit counts, so that
                  str(id) order != numeric order != creation order.
    mode 'reuse': additionally an id may be handed out again, but only after a
                  weakref.finalize callback proved its previous holder dead -- the contract
                  CPython's id() gives.  Never an id of a live object.
    mode 'seq'  : increasing ints (creation order), the "friendly" schedule.
    """

    def __init__(self, seed, mode='order', counters=None):
        self.rng = Stream(seed, 'alloc')
        self.mode = mode
        self.used = set()
        self.dead = []
        self.c = counters if counters is not None else Counters()
        self.next_seq = 1000

    def _fresh(self):
        if self.mode == 'seq':
            self.next_seq += 1
            return self.next_seq
        while True:
            digits = self.rng.randrange(1, 7)
            v = self.rng.randrange(10 ** (digits - 1), 10 ** digits)
            if v not in self.used:
                return v

    def __call__(self, obj):
        self.c.inc('alloc.ids')
        if self.mode == 'reuse' and self.dead and self.rng.random() < 0.5:
            v = self.dead.pop(self.rng.randrange(len(self.dead)))
            self.c.inc('alloc.reused')
        else:
            v = self._fresh()
        self.used.add(v)
        if self.mode == 'reuse':
            try:
                weakref.finalize(obj, self.dead.append, v)
            except TypeError:
                pass
        return v


class LinalgFault:
    """torch.linalg.solve pass-through that raises LinAlgError at chosen call numbers."""

    def __init__(self, orig, fail_at, counters):
        self.orig = orig
        self.fail_at = set(fail_at or ())
        self.n = 0
        self.c = counters

    def __call__(self, *a, **k):
        import torch
        self.n += 1
        self.c.inc('linalg.calls')
        if self.n in self.fail_at or 'all' in self.fail_at:
            self.c.inc('fault.linalg-fail.fired')
            raise torch.linalg.LinAlgError('injected: linalg.solve failed (simulated)')
        return self.orig(*a, **k)


class Env:
    """cfg keys (all optional):
       alloc: {'mode': 'order'|'reuse'|'seq'|'native', 'seed': int}
       axhash: int seed | None            PhysicalAxis.__hash__
       block_bytes: int | None            einsum block budget
       linalg_fail: [n,...] | ['all']     calls of torch.linalg.solve that raise
       reduce_skip: bool                  skip equation.reduce_equation fast path
       dtype: 'float64'|'float32'         torch default dtype for the run
    """

    def __init__(self, cfg=None):
        self.cfg = dict(cfg or {})
        self.c = Counters()
        self._undo = []
        self.alloc = None

    def _patch(self, obj, name, val):
        had = name in vars(obj) if isinstance(obj, type) or hasattr(obj, '__dict__') else True
        old = getattr(obj, name)
        self._undo.append((obj, name, old, had))
        setattr(obj, name, val)

    def __enter__(self):
        fggs = import_repo()
        import torch
        import gc
        # object deaths must not depend on process history: only reference counting frees objects during a run; the
        # cyclic collector (whose timing depends on what the process did before) is off while a run is in progress and
        # is invoked by the worker between runs (cyclic garbage -- e.g. caught exceptions holding their frames and, through
        # them, Nodes whose ids would become reusable -- waits until then)
        self._gc_was_enabled = gc.isenabled()
        gc.disable()
        self.torch = torch
        cfg = self.cfg
        M = sys.modules
        # default dtype
        self._old_dtype = torch.get_default_dtype()
        torch.set_default_dtype(getattr(torch, cfg.get('dtype', 'float64')))
        torch.set_num_threads(1)
        # id allocator
        a = cfg.get('alloc') or {'mode': 'order', 'seed': 0}
        if a.get('mode') != 'native':
            self.alloc = Allocator(a.get('seed', 0), a.get('mode', 'order'), self.c)
            self._patch(M['fggs.fggs'], '_id', self.alloc)
        # PhysicalAxis hash
        if cfg.get('axhash') is not None:
            rng = Stream(cfg['axhash'], 'axhash')
            c = self.c
            PA = M['fggs.indices'].PhysicalAxis

            def _h(ax):
                d = ax.__dict__
                v = d.get('_vh')
                if v is None:
                    v = rng.getrandbits(60)
                    object.__setattr__(ax, '_vh', v)
                    c.inc('axhash.axes')
                return v
            self._patch(PA, '__hash__', _h)
        # einsum block budget
        if cfg.get('block_bytes') is not None:
            import torch_semiring_einsum as tse
            A = tse.AUTOMATIC_BLOCK_SIZE
            self._patch(A, 'max_cpu_bytes', int(cfg['block_bytes']))
            self.c.inc('fault.block-budget.configured')
            # measure what actually fired: einsum calls whose summation was split into more than one block
            import torch_semiring_einsum.equation as tse_eq
            orig_b2i = tse_eq.block_sizes_to_indexes
            c_ = self.c

            def _b2i(sizes, block_sizes):
                sizes = list(sizes)
                block_sizes = list(block_sizes)
                nb = 1
                for sz, bs in zip(sizes, block_sizes):
                    nb *= -(-sz // max(1, bs))
                c_.inc('einsum.summations-under-budget')
                if nb > 1:
                    c_.inc('fault.block-budget.fired')
                return orig_b2i(sizes, block_sizes)
            self._patch(tse_eq, 'block_sizes_to_indexes', _b2i)
        # linalg failure
        if cfg.get('linalg_fail'):
            lf = LinalgFault(torch.linalg.solve, cfg['linalg_fail'], self.c)
            self._patch(torch.linalg, 'solve', lf)
        # skip the reduce_equation fast path
        if cfg.get('reduce_skip'):
            IX = M['fggs.indices']
            if hasattr(IX, 'reduce_equation'):
                orig = IX.reduce_equation
                c = self.c

                def _no_reduce(compiled_equation, tensors):
                    # the path taken when some operand requires grad: no reduction at all
                    c.inc('path-skip.reduce_equation')
                    output_shape = compiled_equation.get_sizes(tensors, compiled_equation.output_variables)
                    return (tensors, compiled_equation, [], output_shape)
                self._reduce_orig = orig
                self._patch(IX, 'reduce_equation', _no_reduce)
        return self

    def __exit__(self, *exc):
        for obj, name, old, had in reversed(self._undo):
            try:
                setattr(obj, name, old)
            except Exception:
                pass
        self._undo.clear()
        import gc
        if getattr(self, '_gc_was_enabled', True):
            gc.enable()
        self.torch.set_default_dtype(self._old_dtype)
        return False


@contextlib.contextmanager
def recorded_warnings():
    """Every operation runs under its own catch_warnings(record=True), so 'a warning was
    issued' is observable regardless of the process-wide once-per-location registry."""
    with warnings.catch_warnings(record=True) as ws:
        warnings.simplefilter('always')
        yield ws


def warning_msgs(ws):
    return [str(w.message) for w in ws]
