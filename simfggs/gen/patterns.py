"""Typed sparsity patterns as plain data, in the same shape json_to_weights accepts:

  {"physical": nested list, "expand": [n...], "vaxes": [axis...], "default": x}
  axis ::= int (index of a physical axis; expand axes come first)
         | [axis...]                         product (row-major); [] is the unit axis
         | {"before": b, "term": axis, "after": a}   sum

Sharing of a physical axis between positions (diagonals) only happens between positions of
the same size that are both plain physical axes or both the same-shaped sub-term -- the
"structurally equal index type" rule of DESIGN.md.
"""


def axis_numel(ax, psizes):
    if isinstance(ax, int):
        return psizes[ax]
    if isinstance(ax, list):
        n = 1
        for f in ax:
            n *= axis_numel(f, psizes)
        return n
    return ax['before'] + axis_numel(ax['term'], psizes) + ax['after']


def gen_axis(g, n, psizes, depth, share_p, allow_sum=True):
    """an axis expression of numel n; may append to psizes"""
    if n == 1 and g.random() < 0.8:
        return []
    r = g.random()
    # share an existing physical axis of the same size (diagonal)
    same = [i for i, s in enumerate(psizes) if s == n]
    if same and n >= 2 and r < share_p:
        return g.choice(same)
    if depth > 0 and n >= 2 and r < 0.5:
        # product
        divs = [d for d in range(2, n) if n % d == 0]
        if divs and g.random() < 0.8:
            d = g.choice(divs)
            return [gen_axis(g, d, psizes, depth - 1, share_p), gen_axis(g, n // d, psizes, depth - 1, share_p)]
    if depth > 0 and allow_sum and n >= 2 and r < 0.75:
        m = g.randrange(1, n)
        b = g.randrange(0, n - m + 1)
        return {'before': b, 'term': gen_axis(g, m, psizes, depth - 1, share_p, allow_sum=False), 'after': n - m - b}
    if n >= 2 or g.random() < 0.5:
        psizes.append(n)
        return len(psizes) - 1
    return []


def used_axes(ax, out):
    if isinstance(ax, int):
        out.add(ax)
    elif isinstance(ax, list):
        for f in ax:
            used_axes(f, out)
    else:
        used_axes(ax['term'], out)


def gen_pattern(g, shape, *, values='real', default_menu=(0.0,), depth=2, share_p=0.3, expand_p=0.3, dense_p=0.25):
    """values: 'real' (>=0 floats), 'log' (incl -inf), 'bool', 'any' (signed, inf, nan-free)"""
    if g.random() < dense_p:
        psizes = []
        vaxes = []
        for n in shape:
            if n == 1 and g.random() < 0.7:
                vaxes.append([])
            else:
                psizes.append(n)
                vaxes.append(len(psizes) - 1)
    else:
        psizes = []
        vaxes = [gen_axis(g, n, psizes, depth, share_p) for n in shape]
    # physical axes must all be used: by construction they are.  Permute the physical order.
    perm = list(range(len(psizes)))
    g.shuffle(perm)                     # new index of old axis i is perm[i]
    new_sizes = [0] * len(psizes)
    for old, new in enumerate(perm):
        new_sizes[new] = psizes[old]

    def ren(ax):
        if isinstance(ax, int):
            return perm[ax]
        if isinstance(ax, list):
            return [ren(f) for f in ax]
        return {'before': ax['before'], 'term': ren(ax['term']), 'after': ax['after']}
    vaxes = [ren(a) for a in vaxes]
    psizes = new_sizes
    n_exp = 0
    if psizes and g.random() < expand_p:
        n_exp = g.randrange(1, len(psizes) + 1)
    pshape = psizes[n_exp:]
    numel = 1
    for s in pshape:
        numel *= s
    flat = [gen_value(g, values) for _ in range(numel)]

    def nest(vals, sh):
        if not sh:
            return vals.pop(0)
        return [nest(vals, sh[1:]) for _ in range(sh[0])]
    spec = {'physical': nest(flat, list(pshape)), 'vaxes': vaxes, 'default': g.choice(list(default_menu))}
    if n_exp:
        spec['expand'] = psizes[:n_exp]
    return spec


def gen_value(g, kind):
    r = g.random()
    if kind == 'bool':
        return r < 0.5
    if kind == 'intlit':
        return g.choice([0, 1, 2, 3])        # JSON integer literals
    if kind == 'real':
        if r < 0.15:
            return 0.0
        if r < 0.2:
            return float('inf')
        if r < 0.35:
            return g.choice([0.5, 1.0, 2.0, 0.25])
        return round(g.random() * 3, 4)
    if kind == 'prob':
        return 0.0 if r < 0.15 else round(g.random(), 4)
    if kind == 'log':
        if r < 0.15:
            return float('-inf')
        return round(g.random() * 4 - 3, 4)
    # any
    if r < 0.1:
        return 0.0
    if r < 0.15:
        return float('inf')
    if r < 0.2:
        return float('-inf')
    if r < 0.3:
        return g.choice([1.0, -1.0, 0.5, 2.0])
    return round(g.random() * 6 - 3, 4)
