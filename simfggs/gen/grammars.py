"""Abstract grammar specs (plain JSON data) and their seeded generator.

spec = {
  'domains': {nl: {'kind': 'finite', 'values': [...]} | {'kind': 'range', 'size': n}},
  'terms':   {name: {'type': [nl...], 'weights': nested list}},        # weights in the Real semiring, >= 0
  'nts':     {name: {'type': [nl...]}},
  'start':   name,
  'rules':   [{'lhs': nt, 'nodes': [{'label': nl, 'id': str|None}], 'ext': [node index...],
               'edges': [{'label': name, 'att': [node index...], 'id': str|None}]}]
}
Everything downstream (builders, reference semantics, presentations) works from this.
"""
import itertools

NLS = ['A', 'B', 'C']
VALUESETS = [['a', 'b', 'c', 'd'], [0, 1, 2, 3], ['x', 'y z', '', 'w']]


def dom_size(d):
    return len(d['values']) if d['kind'] == 'finite' else d['size']


def sizes_of(spec, typ):
    return [dom_size(spec['domains'][nl]) for nl in typ]


def nested(vals, shape):
    if not shape:
        return vals.pop(0)
    return [nested(vals, shape[1:]) for _ in range(shape[0])]


def numel(shape):
    n = 1
    for s in shape:
        n *= s
    return n


def gen_weights(g, shape, menu):
    """menu: 'prob' small weights; 'grid' {0,.5,1,2}; 'zeros' many zeros; 'inf' may contain inf; 'unit' zeros/ones"""
    out = []
    for _ in range(numel(shape)):
        r = g.random()
        if menu == 'unit':
            v = 1.0 if r < 0.6 else 0.0
        elif menu == 'grid':
            v = g.choice([0.0, 0.5, 1.0, 2.0, 0.25])
        elif menu == 'zeros':
            v = 0.0 if r < 0.5 else round(g.random(), 3)
        elif menu == 'inf':
            v = float('inf') if r < 0.15 else (0.0 if r < 0.4 else round(g.random() * 2, 3))
        elif menu == 'small':
            v = 0.0 if r < 0.15 else round(g.random() * 0.4, 4)
        elif menu == 'pos':
            v = round(0.05 + g.random() * 0.45, 4)
        else:
            v = 0.0 if r < 0.1 else round(g.random(), 4)
        out.append(v)
    return nested(out, list(shape))


def gen_spec(g, *, max_nts=3, max_rules=3, max_nodes=4, max_edges=4, max_arity=3,
             recursion='any', weights='prob', start_arity=None, explicit_ids='mixed',
             shapes=True, n_labels=None, max_dom=3, range_domains=True, min_dom=1, repeat_ext=True, min_nts=1):
    """recursion: 'none' | 'linear' | 'any' | 'nonlinear'
    shapes=True adds the shapes the properties name: edgeless internal/external nodes, repeated
    attachment, nullary factors, nonterminals without rules, unreachable nonterminals."""
    nl_n = n_labels or g.randrange(1, 4)
    labels = NLS[:nl_n]
    domains = {}
    for i, nl in enumerate(labels):
        n = g.randrange(min_dom, max_dom + 1)
        if range_domains and g.random() < 0.25:
            domains[nl] = {'kind': 'range', 'size': n}
        else:
            vs = list(VALUESETS[g.randrange(len(VALUESETS))])
            g.shuffle(vs)
            domains[nl] = {'kind': 'finite', 'values': vs[:n]}
    # nonterminals
    n_nts = g.randrange(min(min_nts, max_nts), max_nts + 1)
    nts = {}
    names = ['S', 'X', 'Y', 'Z'][:n_nts]
    for i, nm in enumerate(names):
        if i == 0:
            ar = start_arity if start_arity is not None else g.choice([0, 0, 0, 1, 2])
        else:
            ar = g.randrange(0, min(max_arity, 2) + 1)
        nts[nm] = {'type': [g.choice(labels) for _ in range(ar)]}
    # terminals
    terms = {}
    n_terms = g.randrange(1, 5)
    for i in range(n_terms):
        ar = g.choice([0, 1, 1, 2, 2, 2, 3]) if max_arity >= 3 else g.choice([0, 1, 1, 2, 2])
        ar = min(ar, max_arity)
        typ = [g.choice(labels) for _ in range(ar)]
        shape = [dom_size(domains[x]) for x in typ]
        terms['t%d' % i] = {'type': typ, 'weights': gen_weights(g, shape, weights)}
    order = list(names)
    rules = []
    rule_less = set()
    if shapes and n_nts > 1 and g.random() < 0.15:
        rule_less.add(names[-1])
    for li, lhs in enumerate(names):
        if lhs in rule_less:
            continue
        nr = g.randrange(1, max_rules + 1)
        for ri in range(nr):
            rules.append(gen_rule(g, lhs, li, names, nts, terms, domains, labels,
                                  max_nodes, max_edges, recursion, shapes and repeat_ext, explicit_ids,
                                  base_case=(ri == 0), shapes_edges=shapes))
    spec = {'domains': domains, 'terms': terms, 'nts': nts, 'start': 'S', 'rules': rules}
    return spec


def gen_rule(g, lhs, li, names, nts, terms, domains, labels, max_nodes, max_edges, recursion, shapes,
             explicit_ids, base_case, shapes_edges=None):
    if shapes_edges is None:
        shapes_edges = shapes
    ext_type = nts[lhs]['type']
    nodes = [{'label': nl} for nl in ext_type]
    ext = list(range(len(ext_type)))
    if shapes and len(ext) >= 2 and g.random() < 0.08 and ext_type[0] == ext_type[1]:
        # the same node twice among the externals
        nodes.pop(1)
        ext = [0, 0] + [i - 1 for i in ext[2:]]
    n_extra = g.randrange(0, max(1, max_nodes - len(nodes)) + 1)
    for _ in range(n_extra):
        nodes.append({'label': g.choice(labels)})
    edges = []
    n_edges = g.randrange(0 if shapes_edges else 1, max_edges + 1)
    # which nonterminals may appear on the rhs
    if recursion == 'none':
        allowed = names[li + 1:]
        max_nt = 2
    elif recursion == 'linear-mutual':
        # every rule has at most one nonterminal edge, but it may lead anywhere: linear SCCs with several nonterminals
        allowed = list(names)
        max_nt = 1
    elif recursion == 'linear':
        allowed = names[li:]
        max_nt = 1
    else:
        allowed = list(names)
        max_nt = 2
    n_nt_edges = 0
    n_rec = 0
    for _ in range(n_edges):
        want_nt = (not base_case or recursion == 'none') and allowed and g.random() < 0.45 and n_nt_edges < max_nt
        if want_nt:
            nm = g.choice(allowed)
            if recursion == 'linear' and names.index(nm) <= li:
                # at most one edge that can lead back (keeps every SCC linearly recursive)
                if n_rec >= 1:
                    continue
                n_rec += 1
            typ = nts[nm]['type']
            n_nt_edges += 1
        else:
            nm = g.choice(sorted(terms))
            typ = terms[nm]['type']
        att = []
        ok = True
        for nl in typ:
            cands = [i for i, n in enumerate(nodes) if n['label'] == nl]
            if not cands or (len(nodes) < max_nodes + len(ext_type) and g.random() < 0.2):
                if len(nodes) >= max_nodes + 2:
                    if not cands:
                        ok = False
                        break
                else:
                    nodes.append({'label': nl})
                    cands = [len(nodes) - 1]
            att.append(g.choice(cands))
        if ok:
            edges.append({'label': nm, 'att': att})
    # ids
    for i, n in enumerate(nodes):
        n['id'] = pick_id(g, explicit_ids, 'v', i)
    for i, e in enumerate(edges):
        e['id'] = pick_id(g, explicit_ids, 'e', i)
    return {'lhs': lhs, 'nodes': nodes, 'ext': ext, 'edges': edges}


def pick_id(g, mode, prefix, i):
    if mode == 'none':
        return None
    if i == 0 and g.random() < 0.06:
        return ''           # the empty string is a legal explicit id
    if mode == 'all' or g.random() < 0.5:
        # names whose string order differs from creation order
        return '%s%s%d' % (prefix, g.choice(['', 'z', 'a', '1', '_']), (i * 7 + g.randrange(3)) % 23) + '.' + str(i)
    return None


def nt_deps(spec):
    dep = {nt: set() for nt in spec['nts']}
    for r in spec['rules']:
        for e in r['edges']:
            if e['label'] in spec['nts']:
                dep[r['lhs']].add(e['label'])
    return dep


def is_recursive(spec):
    dep = nt_deps(spec)

    def reach(a):
        seen, todo = set(), [a]
        while todo:
            x = todo.pop()
            for y in dep[x]:
                if y not in seen:
                    seen.add(y)
                    todo.append(y)
        return seen
    return any(nt in reach(nt) for nt in dep)


def sccs(spec):
    """reference SCCs of the nonterminal graph (simple reachability closure), as list of frozensets"""
    dep = nt_deps(spec)
    names = list(dep)
    reach = {a: set() for a in names}
    for a in names:
        todo = [a]
        while todo:
            x = todo.pop()
            for y in dep[x]:
                if y not in reach[a]:
                    reach[a].add(y)
                    todo.append(y)
    comps = []
    seen = set()
    for a in names:
        if a in seen:
            continue
        comp = {a} | {b for b in names if b in reach[a] and a in reach[b]}
        seen |= comp
        comps.append(frozenset(comp))
    return comps, reach


def is_linear(spec):
    comps, reach = sccs(spec)
    comp_of = {nt: c for c in comps for nt in c}
    for r in spec['rules']:
        c = comp_of[r['lhs']]
        cyc = len(c) > 1 or r['lhs'] in reach[r['lhs']]
        if not cyc:
            continue
        k = sum(1 for e in r['edges'] if e['label'] in c)
        if k > 1:
            return False
    return True


def attach_edgeless(spec, g, menu='prob'):
    """give every node of every rule at least one edge (adds unary terminals u_<label> on demand)"""
    for r in spec['rules']:
        used = {k for e in r['edges'] for k in e['att']}
        for i, v in enumerate(r['nodes']):
            if i not in used:
                name = 'u_' + v['label']
                if name not in spec['terms']:
                    spec['terms'][name] = {'type': [v['label']],
                                           'weights': gen_weights(g, [dom_size(spec['domains'][v['label']])], menu)}
                r['edges'].append({'label': name, 'att': [i], 'id': None})
    return spec


def add_unproductive_cycle(spec, g):
    """a nonterminal D in the start's SCC that never derives anything (D -> S D), and a rule S -> D ... that is
    therefore dead; where it sits among S's rules is up to the presentation"""
    if 'D' in spec['nts']:
        return spec
    st = spec['nts'][spec['start']]['type']
    spec['nts']['D'] = {'type': []}
    nodes = [{'label': nl, 'id': None} for nl in st]
    spec['rules'].append({'lhs': 'D', 'nodes': nodes, 'ext': [],
                          'edges': [{'label': spec['start'], 'att': list(range(len(st))), 'id': None}, {'label': 'D', 'att': [], 'id': None}]})
    # the dead S rule: same externals as S, an edge D and (maybe) a terminal
    nodes = [{'label': nl, 'id': None} for nl in st]
    edges = [{'label': 'D', 'att': [], 'id': None}]
    ts = [n for n, t in spec['terms'].items() if all(x in st for x in t['type'])]
    if ts and g.random() < 0.7:
        n = g.choice(sorted(ts))
        edges.append({'label': n, 'att': [st.index(x) for x in spec['terms'][n]['type']], 'id': None})
    pos = g.randrange(len(spec['rules']) + 1)
    spec['rules'].insert(pos, {'lhs': spec['start'], 'nodes': nodes, 'ext': list(range(len(st))), 'edges': edges})
    return spec


def ensure_internal_node(spec, g, menu='prob'):
    """every rule gets at least one internal (summed-out) node carrying an edge"""
    for r in spec['rules']:
        if all(i in r['ext'] for i in range(len(r['nodes']))):
            lab = sorted(spec['domains'])[g.randrange(len(spec['domains']))]
            r['nodes'].append({'label': lab, 'id': None})
            name = 'u_' + lab
            if name not in spec['terms']:
                spec['terms'][name] = {'type': [lab], 'weights': gen_weights(g, [dom_size(spec['domains'][lab])], menu)}
            r['edges'].append({'label': name, 'att': [len(r['nodes']) - 1], 'id': None})
    return spec


def force_recursion(spec, g, nonlinear=False):
    """make the start symbol's SCC cyclic: add S -> (terminals) S [S] over S's own external nodes"""
    st = spec['nts'][spec['start']]['type']
    nodes = [{'label': nl, 'id': None} for nl in st]
    k = len(st)
    edges = []
    # child S instances hang off fresh internal nodes linked to the externals by binary terminals where possible
    reps = 2 if nonlinear else 1
    for rep in range(reps):
        att = []
        for i, nl in enumerate(st):
            nodes.append({'label': nl, 'id': None})
            j = len(nodes) - 1
            att.append(j)
            ts = [n for n, t in spec['terms'].items() if t['type'] == [nl, nl]]
            if not ts:
                name = 'b_' + nl
                sz = dom_size(spec['domains'][nl])
                spec['terms'][name] = {'type': [nl, nl], 'weights': gen_weights(g, [sz, sz], 'small')}
                ts = [name]
            edges.append({'label': g.choice(sorted(ts)), 'att': [i, j], 'id': None})
        edges.append({'label': spec['start'], 'att': att, 'id': None})
    if not st:
        ts = [n for n, t in spec['terms'].items() if t['type'] == []]
        if not ts:
            spec['terms']['c0'] = {'type': [], 'weights': round(0.1 + 0.3 * g.random(), 3)}
            ts = ['c0']
        edges.append({'label': g.choice(sorted(ts)), 'att': [], 'id': None})
    spec['rules'].insert(g.randrange(len(spec['rules']) + 1), {'lhs': spec['start'], 'nodes': nodes, 'ext': list(range(k)), 'edges': edges})
    return spec


def add_diag_terminal(spec, g, menu='small'):
    """a binary terminal stored as a diagonal pattern (like the identity factors the library itself creates), used in a random rule"""
    labs = sorted(spec['domains'])
    nl = g.choice(labs)
    sz = dom_size(spec['domains'][nl])
    if sz < 2:
        return spec
    vals = [v if not isinstance(v, list) else v[0] for v in gen_weights(g, [sz], menu)]
    if g.random() < 0.5:
        vals = [1.0] * sz
    name = 'eq_' + nl
    dense = [[vals[i] if i == j else 0.0 for j in range(sz)] for i in range(sz)]
    spec['terms'][name] = {'type': [nl, nl], 'weights': dense, 'pattern': {'physical': vals, 'vaxes': [0, 0], 'default': 0.0}}
    # use it: in some rule with two nodes of that label (or add one)
    rules = [r for r in spec['rules'] if sum(1 for v in r['nodes'] if v['label'] == nl) >= 1]
    if not rules:
        return spec
    r = g.choice(rules)
    idx = [i for i, v in enumerate(r['nodes']) if v['label'] == nl]
    if len(idx) < 2:
        r['nodes'].append({'label': nl, 'id': None})
        idx.append(len(r['nodes']) - 1)
    a, b = g.sample(idx, 2)
    r['edges'].append({'label': name, 'att': [a, b], 'id': None})
    return spec


def add_closure_nt(spec, g, menu='small'):
    """T(i,j) -> eq(i,j) | T(i,k) a(k,j) with eq stored as a diagonal pattern: the iterate of T starts sparse (diagonal)
    and becomes dense, i.e. its physical layout changes between solver iterations; S gets a rule that uses T"""
    if 'T' in spec['nts']:
        return spec
    nl = g.choice(sorted(spec['domains']))
    sz = dom_size(spec['domains'][nl])
    if sz < 2:
        spec['domains'][nl] = {'kind': 'range', 'size': 2}
        sz = 2
        for t in spec['terms'].values():
            t['weights'] = gen_weights(g, sizes_of(spec, t['type']), menu)
            t.pop('pattern', None)
    ones = g.random() < 0.6
    vals = [1.0] * sz if ones else [round(0.2 + 0.6 * g.random(), 3) for _ in range(sz)]
    spec['terms']['eqT'] = {'type': [nl, nl], 'weights': [[vals[i] if i == j else 0.0 for j in range(sz)] for i in range(sz)],
                            'pattern': {'physical': vals, 'vaxes': [0, 0], 'default': 0.0}}
    spec['terms']['aT'] = {'type': [nl, nl], 'weights': gen_weights(g, [sz, sz], menu)}
    spec['nts']['T'] = {'type': [nl, nl]}
    mk = lambda: [{'label': nl, 'id': None}, {'label': nl, 'id': None}]
    spec['rules'].append({'lhs': 'T', 'nodes': mk(), 'ext': [0, 1], 'edges': [{'label': 'eqT', 'att': [0, 1], 'id': None}]})
    spec['rules'].append({'lhs': 'T', 'nodes': mk() + [{'label': nl, 'id': None}], 'ext': [0, 1],
                          'edges': [{'label': 'T', 'att': [0, 2], 'id': None}, {'label': 'aT', 'att': [2, 1], 'id': None}]})
    if g.random() < 0.5:
        spec['rules'][-2], spec['rules'][-1] = spec['rules'][-1], spec['rules'][-2]
    st = spec['nts'][spec['start']]['type']
    nodes = [{'label': x, 'id': None} for x in st]
    idx = [i for i, x in enumerate(st) if x == nl]
    while len(idx) < 2:
        nodes.append({'label': nl, 'id': None})
        idx.append(len(nodes) - 1)
    a, b = g.sample(idx, 2)
    spec['rules'].append({'lhs': spec['start'], 'nodes': nodes, 'ext': list(range(len(st))), 'edges': [{'label': 'T', 'att': [a, b], 'id': None}]})
    return spec


def constant_factors(spec, g, p=0.3):
    """some terminals become constant factors stored as stride-0 expansions of one number (as `tensor.expand(...)`
    or the JSON "expand" field give)"""
    for n, t in spec['terms'].items():
        shape = sizes_of(spec, t['type'])
        if shape and all(s >= 2 for s in shape) and t.get('pattern') is None and g.random() < p:
            c = round(0.1 + 0.5 * g.random(), 3)
            t['weights'] = nested([c] * numel(shape), list(shape))
            t['pattern'] = {'physical': c, 'expand': list(shape), 'vaxes': list(range(len(shape))), 'default': 0.0}
    return spec


def ring_chord_spec(g, menu='small', vec=None, min_sz=1):
    """one linearly recursive SCC of 3-5 mutually recursive nonterminals: a ring X0 -> X1 -> ... -> X0 with chords, every
    nonterminal with a base rule, names drawn from the stream (the elimination order inside multi_solve depends on names,
    on registration order and on which member is the start symbol).  Vector-valued (arity 1) or scalar members."""
    k = g.randrange(3, 6)
    pool = ['N%s%d' % (c, d) for c in 'abpqxyz' for d in range(10)]
    names = g.sample(pool, k)
    sz = max(min_sz, g.choice([1, 2, 2, 3]))
    vec = (g.random() < 0.6) if vec is None else vec
    domains = {'A': {'kind': 'range', 'size': sz} if g.random() < 0.5 else {'kind': 'finite', 'values': ['a', 'b', 'c'][:sz]}}
    typ = ['A'] if vec else []
    nts = {n: {'type': list(typ)} for n in names}
    terms = {}
    rules = []

    def lin_rule(src, dst, ti):
        # src(x) -> t(x, y) dst(y)      |   src -> c dst   (scalar)
        name = 't%d' % ti
        if vec:
            terms[name] = {'type': ['A', 'A'], 'weights': gen_weights(g, [sz, sz], menu)}
            return {'lhs': src, 'nodes': [{'label': 'A', 'id': None}, {'label': 'A', 'id': None}], 'ext': [0],
                    'edges': [{'label': name, 'att': [0, 1], 'id': None}, {'label': dst, 'att': [1], 'id': None}]}
        terms[name] = {'type': [], 'weights': gen_weights(g, [], menu)}
        return {'lhs': src, 'nodes': [], 'ext': [], 'edges': [{'label': name, 'att': [], 'id': None}, {'label': dst, 'att': [], 'id': None}]}
    ti = 0
    for i, n in enumerate(names):
        rules.append(lin_rule(n, names[(i + 1) % k], ti))
        ti += 1
    for _ in range(g.randrange(1, 4)):
        a_, b_ = g.randrange(k), g.randrange(k)
        rules.append(lin_rule(names[a_], names[b_], ti))
        ti += 1
    for n in names:
        if g.random() < 0.7 or n == names[0]:
            name = 'b%d' % ti
            ti += 1
            if vec:
                terms[name] = {'type': ['A'], 'weights': gen_weights(g, [sz], 'pos')}
                rules.append({'lhs': n, 'nodes': [{'label': 'A', 'id': None}], 'ext': [0], 'edges': [{'label': name, 'att': [0], 'id': None}]})
            else:
                terms[name] = {'type': [], 'weights': gen_weights(g, [], 'pos')}
                rules.append({'lhs': n, 'nodes': [], 'ext': [], 'edges': [{'label': name, 'att': [], 'id': None}]})
    top = None
    if g.random() < 0.5:
        # a non-recursive nonterminal next to the ring (a trivial component)
        nts['Zt'] = {'type': list(typ)}
        name = 'b%d' % ti
        ti += 1
        if vec:
            terms[name] = {'type': ['A'], 'weights': gen_weights(g, [sz], 'pos')}
            rules.append({'lhs': 'Zt', 'nodes': [{'label': 'A', 'id': None}], 'ext': [0], 'edges': [{'label': name, 'att': [0], 'id': None}]})
        else:
            terms[name] = {'type': [], 'weights': gen_weights(g, [], 'pos')}
            rules.append({'lhs': 'Zt', 'nodes': [], 'ext': [], 'edges': [{'label': name, 'att': [], 'id': None}]})
        # ... and a start symbol above both: the ring and the trivial component are siblings, so which of them the
        # depth-first search finishes first is decided by the order of the two edges (the presentation)
        nts['S0'] = {'type': []}
        m0 = g.choice(names)
        if vec:
            rules.append({'lhs': 'S0', 'nodes': [{'label': 'A', 'id': None}], 'ext': [],
                          'edges': [{'label': m0, 'att': [0], 'id': None}, {'label': 'Zt', 'att': [0], 'id': None}]})
        else:
            rules.append({'lhs': 'S0', 'nodes': [], 'ext': [], 'edges': [{'label': m0, 'att': [], 'id': None}, {'label': 'Zt', 'att': [], 'id': None}]})
        top = 'S0'
    g.shuffle(rules)
    # the nts dict order is the registration order of the labels
    order = list(nts)
    g.shuffle(order)
    nts = {n: nts[n] for n in order}
    return {'domains': domains, 'terms': terms, 'nts': nts, 'start': top if (top and g.random() < 0.7) else g.choice(names), 'rules': rules}


def add_neq_terminal(spec, g, menu='small'):
    """a binary terminal stored as a diagonal pattern with a NON-ZERO default (an inequality / penalty factor: one value
    everywhere off the diagonal, stored values on it), used in a random rule.  Such an operand has to be normalised to
    the semiring's zero default inside einsum."""
    labs = sorted(spec['domains'])
    nl = g.choice(labs)
    sz = dom_size(spec['domains'][nl])
    if sz < 2:
        return spec
    off = 1.0 if menu == 'unit' else g.choice([1.0, 0.5, round(0.1 + 0.4 * g.random(), 3)])
    diag = [0.0 if (menu == 'unit' or g.random() < 0.6) else round(0.3 * g.random(), 3) for _ in range(sz)]
    name = 'neq_' + nl
    dense = [[diag[i] if i == j else off for j in range(sz)] for i in range(sz)]
    spec['terms'][name] = {'type': [nl, nl], 'weights': dense, 'pattern': {'physical': diag, 'vaxes': [0, 0], 'default': off}}
    rules = [r for r in spec['rules'] if sum(1 for v in r['nodes'] if v['label'] == nl) >= 1]
    if not rules:
        return spec
    r = g.choice(rules)
    idx = [i for i, v in enumerate(r['nodes']) if v['label'] == nl]
    if len(idx) < 2:
        r['nodes'].append({'label': nl, 'id': None})
        idx.append(len(r['nodes']) - 1)
    a, b = g.sample(idx, 2)
    r['edges'].append({'label': name, 'att': [a, b], 'id': None})
    return spec


def multi_scc_spec(g):
    """several independent non-linearly recursive components  X_i -> a_i X_i X_i | b_i  under one start rule S -> X_1 ... X_k:
    every component is solved by its own run of the iterative method, each with the caller's iteration budget"""
    k = g.randrange(3, 7)
    names = ['X%d' % i for i in range(k)]
    nts = {'S': {'type': []}}
    terms = {}
    rules = [{'lhs': 'S', 'nodes': [], 'ext': [], 'edges': [{'label': n, 'att': [], 'id': None} for n in names]}]
    for i, n in enumerate(names):
        nts[n] = {'type': []}
        a = round(0.1 + 0.32 * g.random(), 3)
        b = round(0.3 + 0.6 * g.random(), 3) if g.random() < 0.5 else round(1.0 - a, 3)
        terms['a%d' % i] = {'type': [], 'weights': a}
        terms['b%d' % i] = {'type': [], 'weights': b}
        rules.append({'lhs': n, 'nodes': [], 'ext': [], 'edges': [{'label': 'a%d' % i, 'att': [], 'id': None},
                                                                 {'label': n, 'att': [], 'id': None}, {'label': n, 'att': [], 'id': None}]})
        rules.append({'lhs': n, 'nodes': [], 'ext': [], 'edges': [{'label': 'b%d' % i, 'att': [], 'id': None}]})
    g.shuffle(rules)
    return {'domains': {'A': {'kind': 'range', 'size': 2}}, 'terms': terms, 'nts': nts, 'start': 'S', 'rules': rules}


def add_onehot_terminals(spec, g):
    """unary indicator factors stored as one-hot patterns (a single physical element behind a SumAxis), used (a) on some
    node of an existing rule and (b) in an extra rule of some nonterminal on ONE internal node with two different
    indicators -- a rule whose sum-product is zero because the two patterns fail to unify (the einsum's zero-result path)"""
    labs = [nl for nl in sorted(spec['domains']) if dom_size(spec['domains'][nl]) >= 2]
    if not labs:
        return spec
    nl = g.choice(labs)
    n = dom_size(spec['domains'][nl])
    idx = g.sample(range(n), 2)
    names = []
    for i in idx:
        name = 'is%d_%s' % (i, nl)
        w = g.choice([1.0, 1.0, round(0.2 + 0.6 * g.random(), 3)])
        spec['terms'][name] = {'type': [nl], 'weights': [w if k == i else 0.0 for k in range(n)],
                               'pattern': {'physical': w, 'vaxes': [{'before': i, 'term': [], 'after': n - 1 - i}], 'default': 0.0}}
        names.append(name)
    rules = [r for r in spec['rules'] if any(v['label'] == nl for v in r['nodes'])]
    if rules and g.random() < 0.6:
        r = g.choice(rules)
        v = g.choice([i for i, x in enumerate(r['nodes']) if x['label'] == nl])
        r['edges'].append({'label': names[0], 'att': [v], 'id': None})
    # the dead rule
    cands = sorted(spec['nts'])
    scalar = [x for x in cands if not spec['nts'][x]['type'] and any(r['lhs'] == x for r in spec['rules'])]
    # nonterminals all of whose rules go through other nonterminals: there the dead rule is the only contribution of the
    # first solver iteration
    baseless = [x for x in cands if any(r['lhs'] == x for r in spec['rules'])
                and all(any(e['label'] in spec['nts'] for e in r['edges']) for r in spec['rules'] if r['lhs'] == x)]
    if baseless and g.random() < 0.5:
        lhs = g.choice(baseless)
    else:
        lhs = g.choice(scalar) if scalar and g.random() < 0.6 else g.choice(cands)
    if any(r['lhs'] == lhs for r in spec['rules']):
        st = spec['nts'][lhs]['type']
        nodes = [{'label': x, 'id': None} for x in st] + [{'label': nl, 'id': None}]
        k = len(nodes) - 1
        spec['rules'].insert(0 if g.random() < 0.5 else g.randrange(len(spec['rules']) + 1),
                             {'lhs': lhs, 'nodes': nodes, 'ext': list(range(len(st))),
                              'edges': [{'label': names[0], 'att': [k], 'id': None}, {'label': names[1], 'att': [k], 'id': None}]})
    return spec


def perm_unit_spec(g, menu='small'):
    """a linearly recursive SCC of binary nonterminals with UNIT rules whose only edge permutes or repeats the externals
    (X(v,w) -> Y(w,v), X(v,w) -> Y(v,v) ...), next to ordinary linear rules and base rules with asymmetric weights"""
    sz = g.choice([2, 2, 3])
    names = g.sample(['X', 'Y', 'P', 'Q'], g.randrange(2, 4))
    domains = {'A': {'kind': 'range', 'size': sz}}
    nts = {n: {'type': ['A', 'A']} for n in names}
    terms = {}
    rules = []
    ti = 0
    two = lambda: [{'label': 'A', 'id': None}, {'label': 'A', 'id': None}]
    for i, n in enumerate(names):
        nxt = names[(i + 1) % len(names)]
        kind = g.choice(['swap', 'swap', 'repeat', 'straight'])
        att = {'swap': [1, 0], 'repeat': g.choice([[0, 0], [1, 1]]), 'straight': [0, 1]}[kind]
        if i == 0 or (g.random() < 0.3 and i < len(names) - 1):
            # pure unit rule: the nonterminal edge alone (the other members of the cycle carry weights < 1, so it converges)
            rules.append({'lhs': n, 'nodes': two(), 'ext': [0, 1], 'edges': [{'label': nxt, 'att': att, 'id': None}]})
        else:
            name = 't%d' % ti
            ti += 1
            terms[name] = {'type': ['A', 'A'], 'weights': gen_weights(g, [sz, sz], menu)}
            rules.append({'lhs': n, 'nodes': two() + [{'label': 'A', 'id': None}], 'ext': [0, 1],
                          'edges': [{'label': name, 'att': [0, 2], 'id': None}, {'label': nxt, 'att': [2, 1] if kind != 'swap' else [1, 2], 'id': None}]})
        if g.random() < 0.75 or i == 0:
            name = 'b%d' % ti
            ti += 1
            terms[name] = {'type': ['A', 'A'], 'weights': gen_weights(g, [sz, sz], 'pos')}
            rules.append({'lhs': n, 'nodes': two(), 'ext': [0, 1], 'edges': [{'label': name, 'att': [0, 1], 'id': None}]})
    nts['S'] = {'type': []}
    rules.append({'lhs': 'S', 'nodes': two(), 'ext': [], 'edges': [{'label': names[0], 'att': g.choice([[0, 1], [1, 0]]), 'id': None}]})
    g.shuffle(rules)
    return {'domains': domains, 'terms': terms, 'nts': nts, 'start': g.choice(['S', names[0]]), 'rules': rules}
