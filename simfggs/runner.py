"""Orchestrator: seeded search over schedules and fault sequences across many simulated runs.

check(prop, tier):  spawn fresh worker interpreters (pinned PYTHONHASHSEED, torch threads 1),
give each an interleaved seed slice, merge results by seed, confirm every violation by
replaying its minimised file in a fresh process, write /verif/evidence/<prop>.json.
Exit codes: 0 held (known findings allowed), 1 VIOLATION, 2 harness problem.
"""
import json
import os
import shutil
import subprocess
import sys
import tempfile
import time

from . import registry
from .core import jdump

VERIF = os.path.dirname(os.path.dirname(os.path.abspath(__file__)))
PY = os.environ.get('FGGS_PYTHON', '/venv/bin/python')
WORKER = os.path.join(VERIF, 'simfggs', 'worker.py')
NPROC = int(os.environ.get('VERIF_WORKERS', '16'))


def _env(hashseed):
    e = dict(os.environ)
    e.update({'FGGS_VERIF': '1', 'PYTHONHASHSEED': str(hashseed), 'OMP_NUM_THREADS': '1',
              'MKL_NUM_THREADS': '1', 'PYTHONDONTWRITEBYTECODE': '1', 'PYTHONWARNINGS': 'default'})
    return e


def _spawn(prop, tier, seeds, out, hashseed=0, pyflags=(), deadline=0.0, replay_dir='', cap=60.0,
           shrink_budget=400, replay=''):
    cmd = [PY, *pyflags, WORKER, '--prop', prop, '--tier', tier, '--out', out, '--cap', str(cap),
           '--shrink-budget', str(shrink_budget)]
    if replay:
        cmd += ['--replay', replay]
    else:
        cmd += ['--seeds', seeds, '--deadline', str(deadline), '--replay-dir', replay_dir]
    log = open(out + '.log', 'w')
    return subprocess.Popen(cmd, env=_env(hashseed), stdout=log, stderr=subprocess.STDOUT, cwd=VERIF)


def _read(out):
    recs = []
    try:
        with open(out) as f:
            for line in f:
                line = line.strip()
                if line:
                    try:
                        recs.append(json.loads(line))
                    except json.JSONDecodeError:
                        pass
    except FileNotFoundError:
        pass
    return recs


def _wait(procs, wall_cap):
    """Wait for workers; kill by PID on the wall budget. Returns list of (rc, timed_out)."""
    t_end = time.time() + wall_cap
    res = []
    for p in procs:
        left = max(1.0, t_end - time.time())
        try:
            rc = p.wait(timeout=left)
            res.append((rc, False))
        except subprocess.TimeoutExpired:
            p.kill()
            p.wait()
            res.append((-9, True))
    return res


def replay_file(path, cap=120.0):
    """Re-execute a replay file in a fresh interpreter under its recorded hash seed and flags."""
    rf = json.load(open(path))
    tmp = tempfile.mkdtemp(prefix='simfggs-replay-')
    try:
        out = os.path.join(tmp, 'r.jsonl')
        flags = {0: (), 1: ('-O',), 2: ('-OO',)}[int(rf.get('optimize', 0) or 0)]
        p = _spawn(rf['property'], rf.get('tier', 'quick'), '', out, hashseed=rf.get('hashseed') or 0,
                   pyflags=flags, replay=path, cap=cap)
        _wait([p], cap + 60)
        recs = _read(out)
        if not recs:
            return {'status': 'harness-error', 'trace': open(out + '.log').read()[-2000:], 'reproduced': False}
        r = recs[0]
        r['reproduced'] = any(v['signature'] == rf['signature'] for v in r.get('violations', []))
        r['same_digest'] = (r.get('digest') == rf.get('digest'))
        return r
    finally:
        shutil.rmtree(tmp, ignore_errors=True)


def load_known():
    try:
        return json.load(open(os.path.join(VERIF, 'known_findings.json'))).get('findings', [])
    except FileNotFoundError:
        return []


def check(prop, tier='quick', seed=None, budget_s=None):
    t0 = time.time()
    engine = registry.engine_for(prop)
    seed = int(os.environ.get('VERIF_SEED', '1')) if seed is None else seed
    plan = engine.plan(prop, tier)         # {'runs': n, 'cap': s, 'legs': [{'hashseed':..,'pyflags':..}], ...}
    nproc = NPROC
    base = seed * 1_000_000
    cap = plan.get('cap', 60.0)
    tmp = tempfile.mkdtemp(prefix=f'simfggs-{prop}-')
    replay_dir = os.environ.get('VERIF_REPLAY_DIR') or os.path.join(VERIF, 'replays')
    os.makedirs(replay_dir, exist_ok=True)
    for f in os.listdir(replay_dir):
        if f.startswith(prop + '-'):
            try:
                os.remove(os.path.join(replay_dir, f))
            except FileNotFoundError:
                pass
    procs, outs = [], []
    legs = plan.get('legs') or [{'hashseed': 0, 'pyflags': []}]
    if tier == 'thorough':
        budget_s = float(os.environ.get('VERIF_BUDGET_S', budget_s or plan.get('budget_s', 900)))
        deadline = time.time() + budget_s
        nruns = plan.get('runs_max', 50_000_000)
        wall_cap = budget_s + cap + 120
    else:
        deadline = 0.0
        nruns = plan['runs']
        wall_cap = plan.get('wall_cap', 900)
    try:
        for w in range(nproc):
            leg = legs[w % len(legs)]
            out = os.path.join(tmp, f'w{w}.jsonl')
            outs.append(out)
            procs.append(_spawn(prop, tier, f'{base + w}:{base + nruns}:{nproc}', out,
                                hashseed=leg.get('hashseed', 0), pyflags=leg.get('pyflags', ()),
                                deadline=deadline, replay_dir=replay_dir, cap=cap,
                                shrink_budget=plan.get('shrink_budget', 400)))
        # determinism spot check: first seeds again, in one more fresh process with another worker count
        det_n = plan.get('det_runs', 40)
        det_out = os.path.join(tmp, 'det.jsonl')
        det_leg = legs[0]
        detp = _spawn(prop, tier, f'{base}:{base + det_n * nproc}:{nproc}', det_out,
                      hashseed=det_leg.get('hashseed', 0), pyflags=det_leg.get('pyflags', ()),
                      replay_dir=os.path.join(tmp, 'det-replays'), cap=cap, shrink_budget=0)
        wres = _wait(procs + [detp], wall_cap)
        recs = []
        for o in outs:
            recs.extend(_read(o))
        det = _read(det_out)
        worker_fail = [(i, rc) for i, (rc, to) in enumerate(wres[:-1]) if rc != 0]
        logs_tail = ''
        if worker_fail:
            i = worker_fail[0][0]
            try:
                logs_tail = open(outs[i] + '.log').read()[-3000:]
            except OSError:
                pass
        return _finish(prop, tier, seed, recs, det, worker_fail, logs_tail, engine, plan, t0, legs)
    finally:
        shutil.rmtree(tmp, ignore_errors=True)


def _finish(prop, tier, seed, recs, det, worker_fail, logs_tail, engine, plan, t0, legs):
    recs.sort(key=lambda r: r['seed'])
    by_status = {}
    counters = {}
    shapes = set()
    steps = 0
    samples = []
    for r in recs:
        by_status[r['status']] = by_status.get(r['status'], 0) + 1
        for k, v in (r.get('counters') or {}).items():
            counters[k] = counters.get(k, 0) + v
        if r['status'] in ('ok', 'known-finding', 'violation') and r.get('nontrivial', True) and r.get('shape') is not None:
            shapes.add(json.dumps(r['shape'], sort_keys=True))
        steps += r.get('steps', 0)
        if 'sample' in r and len(samples) < 4:
            samples.append({'seed': r['seed'], 'digest': r.get('digest'), 'case': r['sample']})
    # determinism
    first = {r['seed']: r for r in recs}
    det_mismatch = [d['seed'] for d in det if d['seed'] in first and
                    (d.get('digest') != first[d['seed']].get('digest') or d['status'] != first[d['seed']]['status'])
                    and first[d['seed']]['status'] not in ('timeout',) and d['status'] not in ('timeout',)]
    det_checked = len([d for d in det if d['seed'] in first])

    violations = [r for r in recs if r['status'] == 'violation']
    knowns = [r for r in recs if r['status'] == 'known-finding']
    harness = [r for r in recs if r['status'] == 'harness-error']
    timeouts = by_status.get('timeout', 0)
    lines = []
    rc = 0

    # confirm violations by replay in a fresh process
    confirmed = []
    seen_sigs = set()
    for r in violations:
        sig = json.dumps(r['violation']['signature'])
        if sig in seen_sigs and len(confirmed) >= 3:
            continue
        path = r.get('replay')
        ok = None
        if path and os.path.exists(path):
            rr = replay_file(path)
            if rr.get('reproduced'):
                ok = path
            else:
                rr2 = replay_file(r['replay_found'])
                if rr2.get('reproduced'):
                    ok = r['replay_found']
        if ok:
            seen_sigs.add(sig)
            confirmed.append((r, ok))
            lines.append(f"VIOLATION property={prop} replay={ok}")
            lines.append(f"  signature={r['violation']['signature']} seed={r['seed']} detail={r['violation']['detail'][:400]}")
        else:
            harness.append({'seed': r['seed'], 'trace': 'violation did not replay: ' + json.dumps(r.get('violation'))[:500]})
    if confirmed:
        rc = 1

    # known findings: print one line per listed open finding that was seen (random batch or directed replay)
    kf_seen = {}
    for r in knowns:
        kf_seen.setdefault(r['known_id'], r)
    kf_report = []
    for k in load_known():
        if k['property'] != prop or k.get('status') != 'open':
            continue
        how = None
        if k['id'] in kf_seen:
            how = f"seed {kf_seen[k['id']]['seed']}"
        elif k.get('replay'):
            rp = os.path.join(VERIF, k['replay'])
            rr = replay_file(rp)
            if rr.get('reproduced'):
                how = f"directed replay {k['replay']}"
            elif rr.get('status') == 'harness-error':
                harness.append({'seed': -1, 'trace': 'known-finding replay errored: ' + str(rr.get('trace'))[-800:]})
        if how:
            lines.append(f"KNOWN-FINDING: property={prop} {k['what']} [{k['id']}; {how}]")
            kf_report.append({'id': k['id'], 'reproduced': True, 'how': how})
        else:
            lines.append(f"note: listed finding {k['id']} was not reproduced in this run")
            kf_report.append({'id': k['id'], 'reproduced': False})

    n = len(recs)
    if harness or worker_fail or det_mismatch or n == 0 or (timeouts > 0.02 * max(n, 1)):
        if rc == 0:
            rc = 2
    wall = time.time() - t0
    explored = by_status.get('ok', 0) + len(knowns) + len(violations)
    cov = {
        'evaluations': n,
        'distinct_nontrivial': len(shapes),
        'rule': engine.RULE.get(prop, '') if isinstance(getattr(engine, 'RULE', None), dict) else getattr(engine, 'RULE', ''),
        'samples': samples or [{'note': 'no ok run produced a sample'}],
        'runs_by_status': by_status,
        'runs_per_hour': int(n / wall * 3600) if wall > 0 else 0,
        'seeds': {'VERIF_SEED': seed, 'first': recs[0]['seed'] if recs else None, 'last': recs[-1]['seed'] if recs else None,
                  'per_hour': int(n / wall * 3600) if wall > 0 else 0},
        'simulated_time': {'unit': 'logical steps (API calls / solver iterations / replacement steps); the library has no clock to virtualise',
                           'steps': steps},
        'fault_kinds_and_probes': dict(sorted(counters.items())),
        'distinct_measure': getattr(engine, 'DISTINCT', 'distinct canonical shapes of non-trivial runs'),
        'determinism': {'seeds_rerun_in_second_process': det_checked, 'digest_mismatches': len(det_mismatch)},
        'legs': legs,
        'components': {'real': ['fggs (from /repo working tree)', 'torch', 'torch_semiring_einsum', 'json'],
                       'simulated': getattr(engine, 'SIMULATED', ['id allocator']),
                       'oracles': getattr(engine, 'ORACLES', [])},
        'known_findings': kf_report,
        'harness_errors': len(harness), 'timeouts': timeouts, 'explored_runs': explored,
    }
    ev = {'property_id': prop, 'tier': tier, 'seed': seed, 'level': 'exploration', 'coverage': cov,
          'assumptions': getattr(engine, 'ASSUMPTIONS', []) + [
              'sampling, not enumeration: nothing is claimed beyond the explored seeds',
              'replay is a pure function of the replay file and the code under /repo'],
          'wall_s': round(wall, 2), 'violations': len(confirmed)}
    evdir = os.environ.get('VERIF_EVIDENCE_DIR') or os.path.join(VERIF, 'evidence')
    os.makedirs(evdir, exist_ok=True)
    jdump(ev, os.path.join(evdir, f'{prop}.json'))
    print(f"[{prop}/{tier}] runs={n} status={by_status} distinct={len(shapes)} steps={steps} wall={wall:.1f}s "
          f"det={det_checked}/{len(det_mismatch)} mismatches")
    for ln in lines:
        print(ln)
    if harness:
        print(f"HARNESS-ERROR ({len(harness)}), first:\n{harness[0].get('trace')}", file=sys.stderr)
    if worker_fail:
        print(f"WORKER-FAILURE {worker_fail}\n{logs_tail}", file=sys.stderr)
    if det_mismatch:
        print(f"NONDETERMINISM: digests differ for seeds {det_mismatch[:10]}", file=sys.stderr)
    if n and timeouts > 0.02 * n:
        print(f"TOO MANY TIMEOUTS: {timeouts}/{n}", file=sys.stderr)
    sys.stdout.flush()
    return rc
