"""Realise an abstract grammar spec as real fggs objects, under a *presentation*:
the order of every registration call, explicit/implicit ids, consistent renamings and
permutations of domain values.  The presentation is plain data (part of the replay file).
"""
import json

import torch

from .core import import_repo
from .gen.grammars import dom_size
from .rng import Stream


def identity_presentation(spec):
    return {'rule_order': list(range(len(spec['rules']))),
            'node_order': [list(range(len(r['nodes']))) for r in spec['rules']],
            'edge_order': [list(range(len(r['edges']))) for r in spec['rules']],
            'ids': 'spec', 'rename_nl': {}, 'rename_el': {}, 'rename_val': {}, 'dom_perm': {},
            'domain_order': sorted(spec['domains']), 'factor_order': sorted(spec['terms']),
            'ext_first': False, 'via': 'api', 'label_prereg': [], 'late_start': False}


def random_presentation(spec, g, allow_rename=True, allow_domperm=True, via=('api', 'api', 'json')):
    p = identity_presentation(spec)
    g.shuffle(p['rule_order'])
    for o in p['node_order']:
        g.shuffle(o)
    for o in p['edge_order']:
        g.shuffle(o)
    p['ids'] = g.choice(['spec', 'implicit', 'explicit', 'explicit2', 'explicit3'])
    g.shuffle(p['domain_order'])
    g.shuffle(p['factor_order'])
    p['ext_first'] = g.random() < 0.5
    p['via'] = g.choice(list(via))
    if allow_rename and g.random() < 0.5:
        p['rename_nl'] = {nl: 'L' + g.choice('pqrs') + nl for nl in spec['domains']}
        names = list(spec['terms']) + list(spec['nts'])
        p['rename_el'] = {n: g.choice(['', 'r_', 'zz']) + n + g.choice(['', "'", '_1']) for n in names}
        if len(set(p['rename_el'].values())) != len(names):
            p['rename_el'] = {n: 'q_' + n for n in names}
        p['rename_val'] = {nl: g.choice([0, 1]) for nl in spec['domains']}   # 1: wrap finite values as 'v:<repr>'
    if allow_domperm and g.random() < 0.5:
        for nl, d in spec['domains'].items():
            if d['kind'] == 'finite':
                p['dom_perm'][nl] = g.perm(dom_size(d))
    if g.random() < 0.3:
        names = list(spec['nts']) + list(spec['terms'])
        g.shuffle(names)
        p['label_prereg'] = names[:g.randrange(len(names) + 1)]
    # the start symbol is assigned last (so it is not the first-registered nonterminal)
    p['late_start'] = len(spec['nts']) >= 2 and g.random() < 0.3
    return p


def _permute_weights(t, typ, dom_perm):
    """new[..., i, ...] = old[..., perm[i], ...] for every axis whose label has a permutation"""
    for ax, nl in enumerate(typ):
        perm = dom_perm.get(nl)
        if perm is not None:
            t = t.index_select(ax, torch.tensor(perm, dtype=torch.long))
    return t


class Built:
    """the real objects plus the correspondence spec <-> objects"""

    def __init__(self):
        self.fgg = None
        self.rules = {}     # spec rule index -> HRGRule
        self.nodes = {}     # (rule index, node index) -> Node
        self.edges = {}     # (rule index, edge index) -> Edge
        self.labels = {}    # spec name -> EdgeLabel
        self.nls = {}


def build(spec, pres=None, interp=True, weights_transform=None, dtype=None, requires_grad=False):
    """Build an FGG (interp=True) or HRG through the public API."""
    F = import_repo()
    pres = pres or identity_presentation(spec)
    rn_nl = lambda x: pres['rename_nl'].get(x, x)
    rn_el = lambda x: pres['rename_el'].get(x, x)
    B = Built()
    nls = {nl: F.NodeLabel(rn_nl(nl)) for nl in spec['domains']}
    B.nls = nls
    labels = {}
    for n, t in spec['terms'].items():
        labels[n] = F.EdgeLabel(rn_el(n), [nls[x] for x in t['type']], is_terminal=True)
    for n, t in spec['nts'].items():
        labels[n] = F.EdgeLabel(rn_el(n), [nls[x] for x in t['type']], is_nonterminal=True)
    B.labels = labels
    if pres.get('late_start'):
        other = [n for n in spec['nts'] if n != spec['start']]
        g = (F.FGG if interp else F.HRG)(labels[other[0]] if other else labels[spec['start']])
    else:
        g = (F.FGG if interp else F.HRG)(labels[spec['start']])
    for n in pres.get('label_prereg', []):
        g.add_edge_label(labels[n])
    for ri in pres['rule_order']:
        r = spec['rules'][ri]
        rhs = F.Graph()
        nodes = {}

        def mk_node(i):
            v = r['nodes'][i]
            nid = v.get('id')
            if pres['ids'] == 'implicit':
                nid = None
            elif pres['ids'] == 'explicit':
                nid = 'N%d_%d' % (ri, i)
            elif pres['ids'] == 'explicit2':
                nid = 'm%s' % ('abcdefgh'[(7 - i) % 8]) + str(ri) + ('' if i < 8 else '_%d' % i)
            elif pres['ids'] == 'explicit3':
                nid = 'x' if i == 0 else 'x_%d' % i      # ids that are prefixes/suffix-variants of each other
            nodes[i] = F.Node(nls[v['label']], id=nid)
            B.nodes[(ri, i)] = nodes[i]
            return nodes[i]
        if pres['ext_first']:
            ext = []
            for i in r['ext']:
                ext.append(nodes[i] if i in nodes else mk_node(i))
            rhs.ext = ext
        for i in pres['node_order'][ri]:
            if i not in nodes:
                mk_node(i)
            if not rhs.has_node_id(nodes[i].id):
                rhs.add_node(nodes[i])
        for j in pres['edge_order'][ri]:
            e = r['edges'][j]
            eid = e.get('id')
            if pres['ids'] == 'implicit':
                eid = None
            elif pres['ids'] in ('explicit', 'explicit2', 'explicit3'):
                eid = 'E%d_%d' % (ri, (j * 5 + 3) % 11) + '.' + str(j)
            ed = F.Edge(labels[e['label']], [nodes[k] for k in e['att']], id=eid)
            B.edges[(ri, j)] = ed
            rhs.add_edge(ed)
        if not pres['ext_first']:
            rhs.ext = [nodes[i] for i in r['ext']]
        rule = F.HRGRule(labels[r['lhs']], rhs)
        g.add_rule(rule)
        B.rules[ri] = rule
    for n in spec['nts']:
        g.add_edge_label(labels[n])
    for n in spec['terms']:
        g.add_edge_label(labels[n])
    if pres.get('late_start'):
        g.start = labels[spec['start']]
    if interp:
        dt = dtype or torch.get_default_dtype()
        doms = {}
        for nl in pres['domain_order']:
            d = spec['domains'][nl]
            if d['kind'] == 'finite':
                vals = list(d['values'])
                perm = pres['dom_perm'].get(nl)
                if perm is not None:
                    vals = [vals[k] for k in perm]
                if pres['rename_val'].get(nl):
                    vals = ['v:' + repr(v) for v in vals]
                doms[nl] = F.FiniteDomain(vals)
            else:
                doms[nl] = F.RangeDomain(d['size'])
            g.add_domain(nls[nl], doms[nl])
        B.doms = doms
        B.weights = {}
        for n in pres['factor_order']:
            t = spec['terms'][n]
            shape = [dom_size(spec['domains'][x]) for x in t['type']]
            if t.get('pattern') is not None and not any(x in pres['dom_perm'] for x in t['type']) \
                    and not (requires_grad and t['pattern'].get('expand')):     # a stride-0 view cannot be an autograd leaf
                from .ref.tensor_ref import mk_patterned
                import sys as _sys
                w = mk_patterned(t['pattern'], torch.float64)
                if weights_transform is not None:
                    # elementwise transform (log / support) of the stored elements and of the default
                    ph = weights_transform(n, w.physical)
                    df = weights_transform(n, torch.tensor(float(w.default), dtype=torch.float64)).item()
                    w = _sys.modules['fggs.indices'].PatternedTensor(ph, w.paxes, w.vaxes, df)
                if w.physical.dtype.is_floating_point and w.physical.dtype != dt:
                    w = _sys.modules['fggs.indices'].PatternedTensor(w.physical.to(dt), w.paxes, w.vaxes, w.default)
                B.patterned = getattr(B, 'patterned', 0) + 1
            else:
                w = torch.tensor(t['weights'], dtype=torch.float64).reshape(shape)
                w = _permute_weights(w, t['type'], pres['dom_perm'])
                if weights_transform is not None:
                    w = weights_transform(n, w)
                if w.dtype.is_floating_point:
                    w = w.to(dt)
                w = w.clone()
            if requires_grad:
                (w.physical if hasattr(w, 'physical') else w).requires_grad_()
            B.weights[n] = w
            g.add_factor(labels[n], F.FiniteFactor([doms[x] for x in t['type']], w))
    if pres.get('via') == 'json':
        j = json.loads(json.dumps(F.fgg_to_json(g) if interp else F.hrg_to_json(g)))
        g2 = F.json_to_fgg(j) if interp else F.json_to_hrg(j)
        if interp:
            # keep our own weight tensors (dtype / transform / requires_grad are part of the run, not of JSON)
            for n in spec['terms']:
                fac = g2.factors.get(rn_el(n))
                if fac is not None:
                    fac.weights = B.weights[n]
        B.fgg_api = g
        g = g2
        B.via_json = True
    B.fgg = g
    return B


def undo_domain_perm(spec, pres, nt, dense):
    """map a result tensor of nonterminal nt computed under pres back to the spec's value order"""
    typ = spec['nts'][nt]['type']
    t = dense
    for ax, nl in enumerate(typ):
        perm = pres['dom_perm'].get(nl)
        if perm is not None:
            inv = [0] * len(perm)
            for new, old in enumerate(perm):
                inv[old] = new
            t = t.index_select(ax, torch.tensor(inv, dtype=torch.long))
    return t
