"""APIHIST: observable snapshots, invariants and the executable model (C16, C20).

Snapshots use public accessors only.  Model objects are plain dicts in "snapshot shape";
a grammar's rules refer to graph *objects by index* so that sharing (a Graph that stays
mutable after it became a right-hand side) is modelled, not ignored.
"""
import copy

def vkey(v):
    """domain values are compared the way Python compares them (1 == True == 1.0): numbers by value, the rest by repr"""
    if isinstance(v, (bool, int, float)):
        return 'num:' + repr(float(v))
    return repr(v)


NL = ['A', 'B', 'C']
ELN = ['e0', 'e1', 'e2', 'e3']
TYPES = [(), ('A',), ('B',), ('A', 'B'), ('A', 'A'), ('B', 'A', 'C')]
NID = ['n0', 'n1', 'n2', 'n3', 'n4', 'n5']
EID = ['x0', 'x1', 'x2', 'x3']


# ---------------------------------------------------------------- snapshots of real objects

def s_label(el):
    return [el.name, [nl.name for nl in el.type], bool(el.is_terminal)]


def s_node(n):
    return [n.id, n.label.name, bool(n.persist_id)]


def s_edge(e):
    return [e.id, s_label(e.label), [s_node(v) for v in e.nodes], bool(e.persist_id)]


def s_domain(d):
    import math
    cls = type(d).__name__
    if cls == 'FiniteDomain':
        return ['finite', [vkey(v) for v in d.values]]
    if cls == 'RangeDomain':
        return ['range', d.size()]
    return [cls, None if math.isinf(d.size()) else d.size()]


def s_factor(f):
    cls = type(f).__name__
    if cls == 'FiniteFactor':
        w = f.weights
        return ['finite', [s_domain(d) for d in f.domains], w.to_dense().tolist(), str(w.dtype)]
    if cls == 'ConstantFactor':
        return ['constant', [s_domain(d) for d in f.domains], f.weight]
    return [cls]


def snap_graph(g, with_str=True):
    s = {'kind': type(g).__name__,
         'nodes': [s_node(n) for n in g.nodes()],
         'edges': [s_edge(e) for e in g.edges()],
         'ext': [s_node(n) for n in g.ext],
         'type': [nl.name for nl in g.type], 'arity': g.arity,
         'nlabels': [nl.name for nl in g.node_labels()],
         'elabels': [s_label(el) for el in g.edge_labels()],
         'nts': [el.name for el in g.nonterminals()], 'ts': [el.name for el in g.terminals()]}
    if with_str:
        s['str'] = str(g)
    if hasattr(g, 'domains'):
        s['domains'] = [[k, s_domain(v)] for k, v in g.domains.items()]
        s['factors'] = [[k, s_factor(v)] for k, v in g.factors.items()]
    return s


def snap_hrg(h, with_str=True):
    st = h.start
    s = {'kind': type(h).__name__,
         'start': None if st is None else s_label(st),
         'nlabels': [nl.name for nl in h.node_labels()],
         'elabels': [s_label(el) for el in h.edge_labels()],
         'nts': [el.name for el in h.nonterminals()], 'ts': [el.name for el in h.terminals()],
         'rules': [[s_label(r.lhs), snap_graph(r.rhs, with_str=False)] for r in h.all_rules()],
         'rules_by_lhs': [[s_label(nt), [snap_graph(r.rhs, with_str=False) for r in h.rules(nt)]]
                          for nt in h.nonterminals()]}
    if with_str:
        s['str'] = str(h)
    if hasattr(h, 'domains'):
        s['domains'] = [[k, s_domain(v)] for k, v in h.domains.items()]
        s['factors'] = [[k, s_factor(v)] for k, v in h.factors.items()]
    return s


def snap(obj, with_str=True):
    if hasattr(obj, 'all_rules'):
        return snap_hrg(obj, with_str)
    return snap_graph(obj, with_str)


# ---------------------------------------------------------------- content view (order-insensitive where the API promises no order)

def content_graph(s):
    c = {'kind': s['kind'],
         'nodes': sorted(map(repr, s['nodes'])), 'edges': sorted(map(repr, s['edges'])),
         'ext': s['ext'],
         'nlabels': sorted(s['nlabels']), 'elabels': sorted(map(repr, s['elabels']))}
    if 'domains' in s:
        c['domains'] = sorted(map(repr, s['domains']))
        c['factors'] = sorted(map(repr, s['factors']))
    return c


def content(s):
    if 'rules_by_lhs' not in s:
        return content_graph(s)
    c = {'kind': s['kind'], 'start': s['start'],
         'nlabels': sorted(s['nlabels']), 'elabels': sorted(map(repr, s['elabels'])),
         'rules_by_lhs': sorted(repr([lhs, [content_graph(g) for g in gs]]) for lhs, gs in s['rules_by_lhs'] if gs)}
    if 'domains' in s:
        c['domains'] = sorted(map(repr, s['domains']))
        c['factors'] = sorted(map(repr, s['factors']))
    return c


def eq_key(s):
    """what == must at least distinguish: nodes, edges, external nodes, rules, start."""
    if 'rules_by_lhs' not in s:
        return ('G', tuple(sorted(map(repr, s['nodes']))), tuple(sorted(map(repr, s['edges']))), repr(s['ext']))
    return ('H', repr(s['start']),
            tuple(sorted(repr([lhs, [eq_key(g) for g in gs]]) for lhs, gs in s['rules_by_lhs'] if gs)))


# ---------------------------------------------------------------- invariants I1..I6 on real objects

def check_graph_invariants(g, where=''):
    """returns list of (clause, detail)"""
    bad = []
    nodes = list(g.nodes())
    edges = list(g.edges())
    nodeset = set(nodes)
    for e in edges:
        for v in e.nodes:
            if v not in nodeset:
                bad.append(('I1-attachment-not-a-node', f'{where} edge {e.id} attachment {v.id}/{v.label.name}'))
    for v in g.ext:
        if v not in nodeset:
            bad.append(('I1-external-not-a-node', f'{where} ext {v.id}/{v.label.name}'))
    ids = [n.id for n in nodes]
    if len(set(ids)) != len(ids):
        bad.append(('I2-node-ids-not-unique', f'{where} {ids}'))
    for n in nodes:
        if not g.has_node_id(n.id):
            bad.append(('I2-node-id-key', f'{where} {n.id}'))
    eids = [e.id for e in edges]
    if len(set(eids)) != len(eids):
        bad.append(('I2-edge-ids-not-unique', f'{where} {eids}'))
    for e in edges:
        if not g.has_edge_id(e.id):
            bad.append(('I2-edge-id-key', f'{where} {e.id}'))
    bad += check_labels(g, edges, where)
    for e in edges:
        if tuple(e.label.type) != tuple(v.label for v in e.nodes):
            bad.append(('I4-edge-node-labels', f'{where} edge {e.id}'))
    return bad


def check_labels(obj, edges, where):
    bad = []
    table = {}
    for el in obj.edge_labels():
        if el.name in table and table[el.name] != el:
            bad.append(('I3-name-two-labels', f'{where} {el.name}'))
        table[el.name] = el
    for e in edges:
        el = e.label
        if el.name not in table:
            bad.append(('I3-edge-label-unregistered', f'{where} {el.name}'))
        elif table[el.name] != el:
            bad.append(('I3-edge-label-differs-from-table', f'{where} {el.name}'))
    return bad


def check_hrg_invariants(h, where=''):
    bad = []
    allr = h.all_rules()
    edges = [e for r in allr for e in r.rhs.edges()]
    bad += check_labels(h, edges, where)
    for i, r in enumerate(allr):
        if r.lhs.is_terminal:
            bad.append(('I5-terminal-lhs', f'{where} rule {i}'))
        if tuple(r.lhs.type) != tuple(r.rhs.type):
            bad.append(('I5-rule-typing', f'{where} rule {i} lhs {r.lhs.name}'))
        if not any(r is q for q in h.rules(r.lhs)):
            bad.append(('I6-rule-not-under-lhs', f'{where} rule {i}'))
        for c, d in check_graph_invariants(r.rhs, where + f'.rule{i}'):
            if c.startswith('I3'):
                continue  # label tables of a rhs graph are that graph's own business
            bad.append((c, d))
    n_by = 0
    for nt in h.nonterminals():
        for r in h.rules(nt):
            n_by += 1
            if r.lhs != nt:
                bad.append(('I6-lhs-key', f'{where} {nt.name}'))
    lhs_regd = sum(1 for r in allr if any(r.lhs == nt for nt in h.nonterminals()))
    if n_by != lhs_regd:
        bad.append(('I6-rule-count', f'{where} {n_by} vs {lhs_regd}'))
    return bad


def check_invariants(obj, where=''):
    if hasattr(obj, 'all_rules'):
        return check_hrg_invariants(obj, where)
    return check_graph_invariants(obj, where)


# ---------------------------------------------------------------- the model

def m_graph(kind):
    m = {'kind': kind, 'nodes': [], 'edges': [], 'ext': [], 'nlabels': [], 'elabels': []}
    if kind == 'FactorGraph':
        m['domains'] = []
        m['factors'] = []
    return m


def m_hrg(kind, start):
    m = {'kind': kind, 'start': start, 'nlabels': [], 'elabels': [], 'rules': []}  # rules: [[lhs, graph_index]]
    if start is not None:
        m['elabels'].append(start)
    if kind == 'FGG':
        m['domains'] = []
        m['factors'] = []
    return m


def m_reg_nlabel(m, name):
    if name not in m['nlabels']:
        m['nlabels'].append(name)


def m_elabel_conflict(m, lab):
    return any(l[0] == lab[0] and l != lab for l in m['elabels'])


def m_reg_elabel(m, lab):
    if lab not in m['elabels']:
        m['elabels'].append(lab)


def m_node_present(m, node):
    """'same' if this very node is present, 'other' if its id is present under another label/persist, None if absent"""
    for n in m['nodes']:
        if n[0] == node[0] and type(n[0]) is type(node[0]):
            return 'same' if n == node else 'other'
    return None


def m_snapshot(m, objs):
    """expand a model object into snapshot shape (content-comparable)"""
    if 'rules' not in m:
        s = {'kind': m['kind'], 'nodes': m['nodes'], 'edges': m['edges'], 'ext': m['ext'],
             'nlabels': m['nlabels'], 'elabels': m['elabels']}
        if 'domains' in m:
            s['domains'] = m['domains']
            s['factors'] = m['factors']
        return s
    by = []
    for lhs, gi in m['rules']:
        for ent in by:
            if ent[0] == lhs:
                ent[1].append(m_snapshot(objs[gi]['model'], objs))
                break
        else:
            by.append([lhs, [m_snapshot(objs[gi]['model'], objs)]])
    s = {'kind': m['kind'], 'start': m['start'], 'nlabels': m['nlabels'], 'elabels': m['elabels'],
         'rules_by_lhs': by}
    if 'domains' in m:
        s['domains'] = m['domains']
        s['factors'] = m['factors']
    return s


def model_from_snapshot(s, old_model=None):
    """adopt the real state where the API text leaves the outcome open"""
    if 'rules' not in s:
        m = {'kind': s['kind'], 'nodes': copy.deepcopy(s['nodes']), 'edges': copy.deepcopy(s['edges']),
             'ext': copy.deepcopy(s['ext']), 'nlabels': list(s['nlabels']), 'elabels': copy.deepcopy(s['elabels'])}
    else:
        m = {'kind': s['kind'], 'start': copy.deepcopy(s['start']), 'nlabels': list(s['nlabels']),
             'elabels': copy.deepcopy(s['elabels']), 'rules': copy.deepcopy(old_model['rules']) if old_model else []}
    if 'domains' in s:
        m['domains'] = copy.deepcopy(s['domains'])
        m['factors'] = copy.deepcopy(s['factors'])
    return m
