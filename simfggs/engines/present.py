"""PRESENT engine (C12): one abstract grammar realised under several presentations --
construction order of rules/nodes/edges/labels/domains/factors, explicit/implicit/mixed ids
(simulated allocator), consistent renamings, permuted domain values, API or JSON -- and
sum_product, gradients and the viterbi derivation weight compared after undoing the permutation."""
import copy
import json
import math

import torch

from ..rng import Stream
from ..core import Violation, Discard, Log, import_repo
from ..env import Env, recorded_warnings
from ..shrink import list_reductions
from ..gen import grammars as G
from ..ref import grammar_ref as GR
from .. import build

RULE = {'C12': 'seeded grammar with finite Z x >=3 presentations (permuted construction order, id modes under a simulated allocator, '
               'renamings, domain-value permutations, API/JSON) x (semiring, method) configurations; values, gradients of a random '
               'linear functional and viterbi derivation weights compared across presentations. non-trivial: >=2 rules and >=3 '
               'pairwise different presentations; distinct = distinct (grammar, presentation set, configuration) digests'}
DISTINCT = 'distinct (abstract grammar, presentations, configurations) triples'
SIMULATED = ['construction order (dict/set iteration order inside the solvers)', 'id allocator and PhysicalAxis hash order', 'renamings / domain value permutations']
ORACLES = ['metamorphic equality between presentations within a derived tolerance', 'reference LFP used only to admit grammars with finite, non-critical Z']
ASSUMPTIONS = ['grammars whose reference Kleene iteration needs more than 400 steps (nearly critical) are discarded',
               'Log-semiring gradients are compared only for strictly positive weights']


def plan(prop, tier):
    if tier == 'quick':
        return {'runs': 1600, 'cap': 60.0, 'det_runs': 20, 'legs': [{'hashseed': h} for h in (0, 1, 2, 3)]}
    return {'cap': 120.0, 'budget_s': 900, 'legs': [{'hashseed': h} for h in (0, 1, 2, 3)]}


def generate(prop, seed, tier):
    g = Stream(seed, 'gen')
    rec = g.choice(['none', 'linear', 'linear-mutual', 'any', 'any'])
    menu = g.choice(['small', 'pos', 'zeros', 'prob']) if rec != 'none' else g.choice(['prob', 'grid', 'zeros', 'inf', 'small', 'pos'])
    vit = g.random() < 0.4
    # the viterbi leg stays inside the rule shapes viterbi() handles on this tree: domains of size >= 2, no node repeated
    # among the externals, no edgeless node, at least one internal node per rule (the rest is a C04 matter, not claimed)
    many = rec == 'linear-mutual'       # several mutually recursive nonterminals, sparse dependencies
    spec = G.gen_spec(g, recursion=rec, weights=menu, max_nodes=4 if not many else 3, max_edges=3 if rec != 'none' else 4,
                      explicit_ids=g.choice(['mixed', 'none', 'all']), range_domains=True,
                      min_dom=2 if vit else 1, repeat_ext=not vit, max_nts=4 if many else 3, min_nts=3 if many else 1, max_dom=2 if many else 3)
    if vit and g.random() < 0.25:
        # mutually recursive nonterminals whose best derivation may run through other members of the component (the base
        # rules have very different weights): the arg-max needs several rounds, in an order the presentation decides
        spec = G.ring_chord_spec(g, 'prob', vec=True, min_sz=2)
    if vit or g.random() < 0.4:
        G.attach_edgeless(spec, g, 'pos' if menu == 'pos' else 'prob')
    if vit:
        G.ensure_internal_node(spec, g, 'pos' if menu == 'pos' else 'prob')
    if g.random() < 0.2:
        G.add_unproductive_cycle(spec, g)
    if g.random() < 0.4:
        G.constant_factors(spec, g)
    if g.random() < 0.15 and menu != 'inf':
        G.add_neq_terminal(spec, g, 'small')
    if not vit and g.random() < 0.15:
        G.add_onehot_terminals(spec, g)
    if not vit and g.random() < 0.12:
        # one linear SCC of 3-5 mutually recursive nonterminals (ring + chords): the block elimination order inside the
        # linear solver depends on names and registration order, i.e. on the presentation
        spec = G.ring_chord_spec(g, 'small')
        if g.random() < 0.4:
            G.add_onehot_terminals(spec, g)
    if not vit and g.random() < 0.05:
        spec = G.perm_unit_spec(g, 'small')
    npres = g.randrange(3, 5)
    pres = [build.random_presentation(spec, g) for _ in range(npres)]
    cfgs = []
    for _ in range(g.randrange(1, 3)):
        sem = g.choice(['real', 'real', 'log', 'viterbi', 'bool'])
        meth = g.choice(['fixed-point', 'newton', 'linear'])
        cfgs.append({'semiring': sem, 'method': meth, 'grad': sem in ('real', 'log') and g.random() < 0.6})
    return {'engine': 'present', 'prop': prop, 'seed': seed, 'spec': spec, 'pres': pres, 'cfgs': cfgs,
            'viterbi': vit, 'cot_seed': g.randrange(1 << 30), 'dtype': 'float64'}


def reducers(case):
    yield from list_reductions(case, ['pres'], min_len=2)
    yield from list_reductions(case, ['cfgs'], min_len=0)
    if case.get('viterbi'):
        c = copy.deepcopy(case)
        c['viterbi'] = False
        yield c
    for ci, cf in enumerate(case['cfgs']):
        if cf.get('grad'):
            c = copy.deepcopy(case)
            c['cfgs'][ci]['grad'] = False
            yield c
    # simplify presentations
    ident = build.identity_presentation(case['spec'])
    for pi, p in enumerate(case['pres']):
        for key in ('rename_nl', 'rename_el', 'rename_val', 'dom_perm', 'label_prereg'):
            if p.get(key):
                c = copy.deepcopy(case)
                c['pres'][pi][key] = copy.deepcopy(ident[key])
                yield c
        for key in ('rule_order', 'node_order', 'edge_order', 'domain_order', 'factor_order', 'ids', 'via', 'ext_first'):
            if p.get(key) != ident[key]:
                c = copy.deepcopy(case)
                c['pres'][pi][key] = copy.deepcopy(ident[key])
                yield c
    # drop rules / edges (presentations are rebuilt as identity-compatible)
    spec = case['spec']
    for ri in range(len(spec['rules']) - 1, -1, -1):
        c = copy.deepcopy(case)
        del c['spec']['rules'][ri]
        if not c['spec']['rules']:
            continue
        for p in c['pres']:
            p['rule_order'] = [x - (x > ri) for x in p['rule_order'] if x != ri]
            del p['node_order'][ri]
            del p['edge_order'][ri]
        yield c
    for ri, r in enumerate(spec['rules']):
        for ei in range(len(r['edges']) - 1, -1, -1):
            c = copy.deepcopy(case)
            del c['spec']['rules'][ri]['edges'][ei]
            for p in c['pres']:
                p['edge_order'][ri] = [x - (x > ei) for x in p['edge_order'][ri] if x != ei]
            yield c


def describe(case):
    return {'rules': [[r['lhs'], [n['label'] for n in r['nodes']], [(e['label'], e['att']) for e in r['edges']], r['ext']] for r in case['spec']['rules']],
            'domains': {k: G.dom_size(d) for k, d in case['spec']['domains'].items()},
            'pres': [{k: p[k] for k in ('rule_order', 'ids', 'via', 'dom_perm', 'ext_first')} for p in case['pres']], 'cfgs': case['cfgs'],
            'viterbi': case['viterbi']}


def V(clause, feats, detail):
    raise Violation('C12', clause, feats, detail)


def semiring_obj(name, dtype, implicit=False):
    import sys
    S = sys.modules['fggs.semirings']
    if implicit and name != 'bool':
        # built without a dtype: has to pick up the default dtype in force *now* (as bin/sum_product.py -d relies on)
        return {'real': S.RealSemiring, 'log': S.LogSemiring, 'viterbi': S.ViterbiSemiring}[name]()
    return {'real': lambda: S.RealSemiring(dtype=dtype), 'log': lambda: S.LogSemiring(dtype=dtype),
            'viterbi': lambda: S.ViterbiSemiring(dtype=dtype), 'bool': lambda: S.BoolSemiring()}[name]()


def lift(name):
    def tr(n, w):
        if name in ('log', 'viterbi'):
            return torch.log(w)
        if name == 'bool':
            return w > 0
        return w
    return tr


def admissible(spec):
    """finite, non-critical Z by the reference; returns (ok, steps)"""
    if not all(G.dom_size(d) > 0 for d in spec['domains'].values()):
        return False, 0
    ref = GR.GrammarRef(spec, 'real')
    x, steps, conv = ref.lfp(400, rtol=1e-12)
    if not conv:
        return False, steps
    import numpy as np
    if G.is_recursive(spec) and not all(np.isfinite(v).all() for v in x.values()):
        return False, steps
    return True, steps


def divergent_derivative(spec, ga, gb, rtol, atol):
    """['divergent-derivative'] iff every disagreeing position is non-finite (or of magnitude >= 1e300) on at least one side
    AND the derivative series really diverges by the reference (rho(J*) >= 1 at the least fixed point, Z itself being finite
    only because some weight is 0): the open finding C12-divergent-derivative-gradient.  Anything else stays unlabelled."""
    import numpy as np
    from .solver import jacobian_bound
    a, b = ga.to(torch.float64), gb.to(torch.float64)
    if a.shape != b.shape:
        return []
    ok = torch.isclose(a, b, rtol=rtol, atol=atol, equal_nan=True)
    bad = ~ok
    wild = (~torch.isfinite(a)) | (~torch.isfinite(b)) | (a.abs() >= 1e300) | (b.abs() >= 1e300)
    if not bool((wild | ~bad).all()):
        return []
    ref = GR.GrammarRef(spec, 'real')
    x, steps, conv = ref.lfp(400, rtol=1e-12)
    if not conv:
        return []
    bnd, rho = jacobian_bound(ref, x, None, {n: np.ones(ref.shape[n]) for n in spec['nts']})
    return ['divergent-derivative'] if rho >= 1.0 else []


def close(a, b, rtol, atol):
    if a.shape != b.shape:
        return False
    if a.dtype == torch.bool:
        return bool(torch.equal(a, b))
    return bool(torch.allclose(a, b, rtol=rtol, atol=atol, equal_nan=True))


def run_presentation(F, case, pi, cfg, steps):
    """returns dict: value (undone), grads {term: tensor undone}, exception class"""
    spec, pres = case['spec'], case['pres'][pi]
    dtype = getattr(torch, case['dtype'])
    out = {'exc': None}
    with Env({'alloc': {'mode': ['order', 'reuse', 'seq'][pi % 3], 'seed': case['seed'] * 17 + pi}, 'axhash': case['seed'] * 19 + pi,
              'dtype': case['dtype']}) as env:
        sem = semiring_obj(cfg['semiring'], dtype)
        B = build.build(spec, pres, interp=True, weights_transform=lift(cfg['semiring']), dtype=dtype,
                        requires_grad=bool(cfg.get('grad')))
        try:
            with recorded_warnings() as ws:
                z = F.sum_product(B.fgg, semiring=sem, method=cfg['method'], tol=1e-12, kmax=5000)
            zd = z.to_dense()
            out['value'] = build.undo_domain_perm(spec, pres, spec['start'], zd.detach())
            out['warned'] = len(ws) > 0
            if cfg.get('grad'):
                cr = Stream(case['cot_seed'], 'cot')
                shape = G.sizes_of(spec, spec['nts'][spec['start']]['type'])
                cot = torch.tensor([round(cr.random() * 2 - 0.5, 3) for _ in range(G.numel(shape))], dtype=dtype).reshape(shape)
                # cotangent in the presentation's value order
                cp = cot
                for ax, nl in enumerate(spec['nts'][spec['start']]['type']):
                    perm = pres['dom_perm'].get(nl)
                    if perm is not None:
                        cp = cp.index_select(ax, torch.tensor(perm))
                mask = torch.isfinite(zd.detach())
                loss = (torch.where(mask, zd, torch.zeros_like(zd)) * cp).sum()
                if loss.requires_grad:
                    loss.backward()
                grads = {}
                for n, t in spec['terms'].items():
                    w = B.weights[n]
                    if hasattr(w, 'physical'):
                        # gradient w.r.t. the stored elements, laid out densely (unbacked positions get 0)
                        import sys as _sys
                        g_ = w.physical.grad
                        gr = _sys.modules['fggs.indices'].PatternedTensor(torch.zeros_like(w.physical) if g_ is None else g_,
                                                                          w.paxes, w.vaxes, 0.0).to_dense()
                    else:
                        gr = w.grad
                        gr = torch.zeros_like(w) if gr is None else gr
                    # undo permutation on the factor's axes
                    for ax, nl in enumerate(t['type']):
                        perm = pres['dom_perm'].get(nl)
                        if perm is not None:
                            inv = [0] * len(perm)
                            for new, old in enumerate(perm):
                                inv[old] = new
                            gr = gr.index_select(ax, torch.tensor(inv))
                    if t.get('pattern') is not None and not t['pattern'].get('expand'):
                        # a patterned weight has a gradient only for its stored elements; a presentation that had to build the
                        # same factor densely (permuted domain values) is compared on those positions only
                        from ..ref.tensor_ref import dense_of_spec
                        backed = dense_of_spec(t['pattern'], torch.float64)[1] > 0
                        gr = torch.where(backed, gr, torch.zeros_like(gr))
                    grads[n] = gr.detach()
                out['grads'] = grads
        except Exception as ex:
            out['exc'] = type(ex).__name__
            out['msg'] = str(ex)[:300]
        out['counters'] = dict(env.c)
    return out


def run_viterbi(F, case, pi, asst):
    spec, pres = case['spec'], case['pres'][pi]
    dtype = getattr(torch, case['dtype'])
    out = {'exc': None}
    with Env({'alloc': {'mode': ['order', 'reuse', 'seq'][pi % 3], 'seed': case['seed'] * 23 + pi}, 'axhash': case['seed'] * 29 + pi,
              'dtype': case['dtype']}) as env:
        B = build.build(spec, pres, interp=True, weights_transform=lift('viterbi'), dtype=dtype)
        a = []
        for k, nl in zip(asst, spec['nts'][spec['start']]['type']):
            perm = pres['dom_perm'].get(nl)
            a.append(k if perm is None else perm.index(k))
        try:
            with recorded_warnings():
                d = F.viterbi(B.fgg, tuple(a))
                graph, assignment = d.derive()
            w = 0.0
            for e in graph.edges():
                wt = graph.factors[e.label.name].weights.to_dense()
                idx = tuple(assignment[v] for v in e.nodes)
                w += float(wt[idx]) if idx else float(wt)
            out['weight'] = w
        except Exception as ex:
            out['exc'] = type(ex).__name__
            out['msg'] = str(ex)[:300]
    return out


def execute(case):
    F = import_repo()
    log = Log(keep=False)
    viol = []
    counters = {}
    spec = case['spec']
    ok, steps = admissible(spec)
    if not ok:
        raise Discard('reference LFP not finite / nearly critical')
    lin = G.is_linear(spec)
    slow = steps > 3
    rtol, atol = (1e-9, 1e-12) if not slow else (1e-5, 1e-8)
    sig_pres = {json.dumps(p, sort_keys=True) for p in case['pres']}
    try:
        for cfg in case['cfgs']:
            cfg = dict(cfg)
            if cfg['method'] == 'linear' and not lin:
                cfg['method'] = 'newton'
            if cfg['semiring'] == 'bool':
                cfg['grad'] = False
            if cfg['semiring'] == 'log' and cfg.get('grad') and any(
                    (torch.tensor(t['weights'], dtype=torch.float64) <= 0).any() or torch.isinf(torch.tensor(t['weights'], dtype=torch.float64)).any()
                    for t in spec['terms'].values()):
                cfg['grad'] = False
            if cfg['semiring'] == 'real' and cfg.get('grad') and any(
                    torch.isinf(torch.tensor(t['weights'], dtype=torch.float64)).any() for t in spec['terms'].values()):
                cfg['grad'] = False
            res = [run_presentation(F, case, pi, cfg, steps) for pi in range(len(case['pres']))]
            for r in res:
                for k, v in r.get('counters', {}).items():
                    counters[k] = counters.get(k, 0) + v
            counters['presentations.run'] = counters.get('presentations.run', 0) + len(res)
            excs = [r['exc'] for r in res]
            feats = [cfg['semiring'], cfg['method']]
            if len(set(excs)) > 1:
                i = next(i for i, e in enumerate(excs) if e != excs[0])
                V('exception-differs', feats + [str(excs[0]), str(excs[i])],
                  f'presentation 0 -> {excs[0]} ({res[0].get("msg")}), presentation {i} -> {excs[i]} ({res[i].get("msg")})')
            if excs[0] is not None:
                counters['config.raised-in-all'] = counters.get('config.raised-in-all', 0) + 1
                log.add('cfg', feats, 'exc', excs[0])
                continue
            base = res[0]
            for i, r in enumerate(res[1:], 1):
                if not close(base['value'], r['value'], rtol, atol):
                    V('value-differs', feats, f'sum_product under presentation 0: {base["value"].tolist()}, under presentation {i}: {r["value"].tolist()}')
                if cfg.get('grad'):
                    for n in spec['terms']:
                        ga, gb = base['grads'][n], r['grads'][n]
                        if not close(ga, gb, max(rtol, 1e-6) * 10, max(atol, 1e-9) * 10):
                            V('gradient-differs', divergent_derivative(spec, ga, gb, max(rtol, 1e-6) * 10, max(atol, 1e-9) * 10) + feats,
                              f'd/d{n} under presentation 0: {ga.tolist()}, under presentation {i}: {gb.tolist()}')
            counters['config.compared'] = counters.get('config.compared', 0) + 1
            if cfg.get('grad'):
                counters['config.grad-compared'] = counters.get('config.grad-compared', 0) + 1
            log.add('cfg', feats, [round(float(x), 8) if math.isfinite(float(x)) else str(float(x)) for x in base['value'].to(torch.float64).flatten().tolist()])
        edgeless = any(i not in {k for e in r['edges'] for k in e['att']} for r in spec['rules'] for i in range(len(r['nodes'])))
        has_inf = any(math.isinf(v) for t in spec['terms'].values() for v in torch.tensor(t['weights'], dtype=torch.float64).flatten().tolist())
        if has_inf:
            # infinite weights put (-inf)+(+inf) = nan into viterbi()'s own einsum (it does not apply the 0 x inf = 0 convention),
            # after which its arg-max bookkeeping is void: another C04 matter, set aside like the rule shapes above
            edgeless = True
        if case.get('viterbi') and edgeless:
            # viterbi() on this tree mishandles rules with edgeless nodes (KeyError / AssertionError / expand error, a C04
            # matter, not claimed); whether it is hit depends on which tied derivation is chosen, so such grammars are skipped
            counters['viterbi.skipped-edgeless-node'] = 1
        if case.get('viterbi') and not edgeless:
            vref = GR.GrammarRef(spec, 'viterbi')
            vx, vsteps, vconv = vref.lfp(400)
            shape = G.sizes_of(spec, spec['nts'][spec['start']]['type'])
            import itertools
            import numpy as np
            for asst in itertools.islice(itertools.product(*[range(s) for s in shape]), 4):
                best = vx[spec['start']][asst] if asst else vx[spec['start']]
                if not (vconv and np.isfinite(best)):
                    continue
                rs = [run_viterbi(F, case, pi, asst) for pi in range(len(case['pres']))]
                counters['viterbi.run'] = counters.get('viterbi.run', 0) + len(rs)
                excs = [r['exc'] for r in rs]
                if len({e is None for e in excs}) > 1:
                    i = next(i for i, e in enumerate(excs) if (e is None) != (excs[0] is None))
                    V('exception-differs', ['viterbi', str(excs[0]), str(excs[i])],
                      f'viterbi under presentation 0 -> {excs[0]} ({rs[0].get("msg")}), presentation {i} -> {excs[i]} ({rs[i].get("msg")})')
                if excs[0] is not None:
                    counters['viterbi.raised-in-all'] = counters.get('viterbi.raised-in-all', 0) + 1
                    continue
                for i, r in enumerate(rs[1:], 1):
                    if abs(r['weight'] - rs[0]['weight']) > 1e-9 * max(1.0, abs(rs[0]['weight'])):
                        V('viterbi-weight-differs', [], f'start assignment {asst}: derivation weight {rs[0]["weight"]} under presentation 0, {r["weight"]} under presentation {i}')
                counters['viterbi.compared'] = counters.get('viterbi.compared', 0) + 1
                log.add('vit', list(asst), round(rs[0]['weight'], 9))
    except Violation as v:
        viol.append(v.to_json())
    import hashlib
    shape = hashlib.sha256(json.dumps([spec, case['pres'], case['cfgs']], sort_keys=True).encode()).hexdigest()[:16]
    return {'violations': viol, 'counters': counters, 'digest': log.digest(), 'shape': shape,
            'steps': counters.get('presentations.run', 0) + counters.get('viterbi.run', 0),
            'nontrivial': len(spec['rules']) >= 2 and len(sig_pres) >= 3}
