"""FACTORIZE engine (C05): the factorized grammar is a different grammar for different id/hash
schedules, and freshness of names is a property of call *sequences* (a running label set is threaded
through all rules and exposed by factorize_rule as an in/out argument).

Per abstract grammar: several schedules (allocator seed/mode, presentation) x 3 methods; histories of
factorize_rule calls sharing one label set interleaved with factorize_hrg."""
import copy
import json
import sys

import torch

from ..rng import Stream
from ..core import Violation, Discard, Log, import_repo
from ..env import Env, recorded_warnings
from ..shrink import list_reductions
from ..gen import grammars as G
from ..ref import grammar_ref as GR
from ..ref import treewidth_ref as TW
from ..ref import iso
from .. import build

RULE = {'C05': 'seeded grammars with the rule shapes the statement names (edgeless nodes, several components, nullary and repeated-attachment edges, '
               'externals anywhere, labels pre-named like fresh ones) x >=3 schedules (allocator, construction order) x 3 methods, plus histories of '
               'factorize_rule with a shared label set. non-trivial: some rule with >=4 nodes was split into >=2 rules; distinct = distinct '
               '(grammar, schedules) digests; also counted: grammars that produced >1 distinct factorization'}
DISTINCT = 'distinct (grammar, schedule set) digests'
SIMULATED = ['id allocator and construction order (decide set iteration order, hence the decomposition and the fresh names)', 'history of factorize_rule calls on a shared label set']
ORACLES = ['reference inliner + VF2 isomorphism with ordered externals', 'sum-product before/after', 'tree_decomposition seam monitor (method honoured, decomposition valid)', 'input snapshots']
ASSUMPTIONS = ['sum-products are compared for grammars whose reference Kleene iteration converges within 400 steps']


def plan(prop, tier):
    if tier == 'quick':
        return {'runs': 1600, 'cap': 60.0, 'det_runs': 20, 'legs': [{'hashseed': h} for h in (0, 1, 2, 3)]}
    return {'cap': 120.0, 'budget_s': 900, 'legs': [{'hashseed': h} for h in (0, 1, 2, 3, 4, 5, 6, 7)]}


def generate(prop, seed, tier):
    g = Stream(seed, 'gen')
    big = tier != 'quick'
    spec = G.gen_spec(g, max_nts=2, max_rules=2, max_nodes=6 + big, max_edges=6 + big, max_arity=3,
                      recursion=g.choice(['none', 'none', 'linear', 'any']), weights=g.choice(['small', 'prob', 'zeros']),
                      explicit_ids=g.choice(['mixed', 'none', 'all']), shapes=True, max_dom=2)
    if g.random() < 0.12:
        # a rule whose primal graph defeats the min_fill heuristic (exact methods must do better)
        from .treedec import hard_graph
        n, edges = hard_graph(g, 8)
        lab = sorted(spec['domains'])[0]
        spec['domains'][lab] = {'kind': 'range', 'size': g.choice([1, 2])}
        sz = spec['domains'][lab]['size']
        spec['terms']['hb'] = {'type': [lab, lab], 'weights': G.gen_weights(g, [sz, sz], 'small')}
        for t in spec['terms'].values():
            t['weights'] = G.gen_weights(g, G.sizes_of(spec, t['type']), 'small')
        spec['rules'].append({'lhs': 'S', 'nodes': [{'label': lab, 'id': None if g.random() < 0.5 else 'h%d' % i} for i in range(n)] +
                              [{'label': l, 'id': None} for l in spec['nts']['S']['type']],
                              'ext': list(range(n, n + len(spec['nts']['S']['type']))),
                              'edges': [{'label': 'hb', 'att': [u, v], 'id': None} for u, v in edges]})
    if g.random() < 0.05:
        # a long rule (13-16 nodes of a one-valued label, tree-shaped): the requested method has to be honoured for big
        # right-hand sides as well
        n = g.randrange(13, 17)
        spec['domains']['U'] = {'kind': 'range', 'size': 1}
        spec['terms']['uu'] = {'type': ['U', 'U'], 'weights': [[round(0.5 + 0.4 * g.random(), 3)]]}
        st = spec['nts'][spec['start']]['type']
        edges = [{'label': 'uu', 'att': [g.randrange(i), i] if g.random() < 0.5 else [i, g.randrange(i)], 'id': None} for i in range(1, n)]
        spec['rules'].append({'lhs': spec['start'], 'nodes': [{'label': 'U', 'id': None if g.random() < 0.5 else 'u%d' % i} for i in range(n)] +
                              [{'label': l, 'id': None} for l in st],
                              'ext': list(range(n, n + len(st))), 'edges': edges})
    # existing labels named like the fresh ones
    extra = []
    if g.random() < 0.5:
        for nt in list(spec['nts']):
            if g.random() < 0.6:
                extra.append(['%s_%d' % (nt, g.randrange(1, 4)), g.random() < 0.5])
    scheds = []
    for _ in range(g.randrange(3, 5)):
        scheds.append({'alloc': {'mode': g.choice(['order', 'order', 'seq', 'reuse']), 'seed': g.randrange(1 << 30)},
                       'pres': build.random_presentation(spec, g, allow_rename=False, allow_domperm=False, via=('api',)),
                       'method': g.choice(['min_fill', 'quickbb', 'acb']), 'entry': g.choice(['fgg', 'fgg', 'hrg', 'rules'])})
    return {'engine': 'factorize', 'prop': prop, 'seed': seed, 'spec': spec, 'extra_labels': extra, 'scheds': scheds,
            'hist_seed': g.randrange(1 << 30)}


def reducers(case):
    yield from list_reductions(case, ['scheds'], min_len=1)
    yield from list_reductions(case, ['extra_labels'])
    spec = case['spec']
    for ri in range(len(spec['rules']) - 1, -1, -1):
        if len(spec['rules']) > 1:
            c = copy.deepcopy(case)
            del c['spec']['rules'][ri]
            for s in c['scheds']:
                s['pres'] = None
            yield c
    for ri, r in enumerate(spec['rules']):
        for ei in range(len(r['edges']) - 1, -1, -1):
            c = copy.deepcopy(case)
            del c['spec']['rules'][ri]['edges'][ei]
            for s in c['scheds']:
                s['pres'] = None
            yield c
    for si, s in enumerate(case['scheds']):
        if s.get('pres') is not None:
            c = copy.deepcopy(case)
            c['scheds'][si]['pres'] = None
            yield c
        if s['entry'] != 'fgg':
            c = copy.deepcopy(case)
            c['scheds'][si]['entry'] = 'fgg'
            yield c


def describe(case):
    return {'rules': [[r['lhs'], [n['label'] for n in r['nodes']], [(e['label'], e['att']) for e in r['edges']], r['ext']] for r in case['spec']['rules']],
            'extra_labels': case['extra_labels'], 'scheds': [[s['alloc'], s['method'], s['entry']] for s in case['scheds']]}


def V(clause, feats, detail, prop='C05'):
    raise Violation(prop, clause, feats, detail)


def lab_key(el):
    return (el.name, tuple(l.name for l in el.type), el.is_terminal)


def rule_snap(r):
    return (lab_key(r.lhs), tuple(r.rhs.nodes()), tuple(r.rhs.edges()), tuple(r.rhs.ext))


def hrg_snap(h):
    return (lab_key(h.start), tuple(map(lab_key, h.edge_labels())), tuple(nl.name for nl in h.node_labels()),
            tuple(rule_snap(r) for r in h.all_rules()))


def inline(root, rules_of_fresh, fresh, depth=0):
    """reference inliner on plain data: returns (nodes {key: label}, edges [(labkey, [keys])], ext [keys])"""
    counter = [0]

    def expand(rule, ext_keys):
        nodes = {}
        keymap = {}
        for k, v in zip(rule.rhs.ext, ext_keys):
            if keymap.setdefault(v_id(k), v) != v:
                # the same node twice among a child's externals but attached to two different parent nodes
                V('inline', ['external-identification-impossible'], f'rule {rule.lhs.name}: one node is external twice but attached to different nodes')
        out_nodes = {}
        for n in rule.rhs.nodes():
            if v_id(n) not in keymap:
                counter[0] += 1
                keymap[v_id(n)] = ('n', counter[0])
                out_nodes[keymap[v_id(n)]] = n.label.name
        edges = []
        for e in rule.rhs.edges():
            att = [keymap[v_id(v)] for v in e.nodes]
            if e.label in fresh:
                rs = rules_of_fresh[e.label]
                sub_nodes, sub_edges = expand(rs, att)
                out_nodes.update(sub_nodes)
                edges += sub_edges
            else:
                edges.append((lab_key(e.label), att))
        return out_nodes, edges

    def v_id(n):
        return (n.id, n.label.name)
    ext_keys = []
    root_nodes = {}
    seen = {}
    for k in root.rhs.ext:
        if v_id(k) not in seen:
            counter[0] += 1
            seen[v_id(k)] = ('n', counter[0])
            root_nodes[seen[v_id(k)]] = k.label.name
        ext_keys.append(seen[v_id(k)])
    nodes, edges = expand(root, ext_keys)
    nodes.update(root_nodes)
    return nodes, edges, ext_keys


def check_factorization(F, g, gnew, counters, feats, interp):
    if lab_key(g.start) != lab_key(gnew.start):
        V('start', feats, f'start {g.start.name} became {gnew.start.name}')
    old_labels = {el.name: el for el in g.edge_labels()}
    fresh = [el for el in gnew.nonterminals() if el.name not in old_labels]
    for el in gnew.edge_labels():
        if el.name in old_labels and old_labels[el.name] != el:
            V('fresh-name', feats + ['collides-with-existing-label'], f'{el.name} exists in the input with another type/kind')
    old_t = sorted(map(lab_key, g.terminals()))
    new_t = sorted(map(lab_key, gnew.terminals()))
    used_t = sorted({lab_key(e.label) for r in g.all_rules() for e in r.rhs.edges() if e.label.is_terminal})
    if not set(used_t) <= set(new_t) or not set(new_t) <= set(old_t):
        V('terminals', feats, f'terminal labels {old_t} became {new_t}')
    if interp:
        if gnew.factors is not g.factors and (list(gnew.factors) != list(g.factors) or any(gnew.factors[k] is not g.factors[k] and gnew.factors[k] != g.factors[k] for k in g.factors)):
            V('factors', feats, 'factors not carried over')
        if gnew.domains is not g.domains and dict(gnew.domains) != dict(g.domains):
            V('domains', feats, 'domains not carried over')
    freshset = set(fresh)
    rules_of_fresh = {}
    for el in fresh:
        rs = gnew.rules(el)
        if len(rs) != 1:
            V('fresh-rules', feats + ['not-exactly-one-rule'], f'fresh nonterminal {el.name} has {len(rs)} rules')
        rules_of_fresh[el] = rs[0]
    names = [el.name for el in gnew.edge_labels()]
    if len(set(names)) != len(names):
        V('fresh-name', feats + ['duplicate'], f'{names}')
    split = False
    for nt in g.nonterminals():
        olds = g.rules(nt)
        news = gnew.rules(gnew.get_edge_label(nt.name)) if gnew.has_edge_label_name(nt.name) else []
        if len(olds) != len(news):
            V('rule-count', feats, f'{nt.name}: {len(olds)} rules became {len(news)} root rules')
        for k, (ro, rn) in enumerate(zip(olds, news)):
            nodes, edges, ext = inline(rn, rules_of_fresh, freshset)
            a = iso.incidence(nodes, edges, ext)
            b = iso.incidence({(n.id, n.label.name): n.label.name for n in ro.rhs.nodes()},
                              [(lab_key(e.label), [(v.id, v.label.name) for v in e.nodes]) for e in ro.rhs.edges()],
                              [(v.id, v.label.name) for v in ro.rhs.ext])
            if not iso.isomorphic(a, b):
                kind = 'node-count' if len(nodes) != len(list(ro.rhs.nodes())) else ('edge-count' if len(edges) != len(list(ro.rhs.edges())) else 'structure')
                V('inline-not-isomorphic', feats + [kind],
                  f'{nt.name} rule {k}: inlining gives {len(nodes)} nodes/{len(edges)} edges, original has {len(list(ro.rhs.nodes()))}/{len(list(ro.rhs.edges()))} (or attachments/externals differ)')
            counters.inc('rules.inlined')
            n_src = len(list(ro.rhs.nodes()))

            def walk(rule):
                yield rule
                for e in rule.rhs.edges():
                    if e.label in freshset:
                        yield from walk(rules_of_fresh[e.label])
            parts = list(walk(rn))
            for pr in parts:
                if len(list(pr.rhs.nodes())) > n_src:
                    V('wider-rule', feats, f'{nt.name} rule {k}: a new rule has {len(list(pr.rhs.nodes()))} nodes, its source {n_src}')
            if len(parts) >= 2 and n_src >= 4:
                split = True
    reachable = set()
    for nt in g.nonterminals():
        if gnew.has_edge_label_name(nt.name):
            for rn in gnew.rules(gnew.get_edge_label(nt.name)):
                todo = [rn]
                while todo:
                    r = todo.pop()
                    for e in r.rhs.edges():
                        if e.label in freshset and e.label not in reachable:
                            reachable.add(e.label)
                            todo.append(rules_of_fresh[e.label])
    if reachable != freshset:
        V('fresh-rules', feats + ['unused-fresh-nonterminal'], f'{[x.name for x in freshset - reachable]}')
    return split, fresh


def execute(case):
    F = import_repo()
    FZ = sys.modules['fggs.factorize']
    log = Log(keep=False)
    viol = []
    counters = {}
    spec = case['spec']
    ref_ok = all(G.dom_size(d) > 0 for d in spec['domains'].values())
    zref = None
    if ref_ok:
        ref = GR.GrammarRef(spec, 'real')
        x, steps, conv = ref.lfp(400, rtol=1e-12)
        import numpy as np
        if conv and all(np.isfinite(v).all() for v in x.values()):
            zref = (torch.tensor(x[spec['start']], dtype=torch.float64), steps)
    fact_sigs = set()
    split_any = False
    try:
        for si, sc in enumerate(case['scheds']):
            with Env({'alloc': sc['alloc'], 'dtype': 'float64'}) as env:
                c = env.c
                pres = sc.get('pres') or build.identity_presentation(spec)
                B = build.build(spec, pres, interp=True)
                g = B.fgg
                if (case['seed'] + si) % 5 == 0:
                    # trainable weights: every factor's weights are a non-leaf autograd tensor (a function of a parameter)
                    for fac in g.factors.values():
                        w_ = fac.weights
                        if w_.physical.dtype.is_floating_point and not any(st == 0 for st in w_.physical.stride()):
                            par = w_.physical.detach().clone().requires_grad_()
                            fac.weights = sys.modules['fggs.indices'].PatternedTensor(par * 1.0, w_.paxes, w_.vaxes, w_.default)
                    c.inc('probe.trainable-non-leaf-weights')
                for name, term in case['extra_labels']:
                    if not g.has_edge_label_name(name):
                        nl = list(g.node_labels())
                        g.add_edge_label(F.EdgeLabel(name, [], is_terminal=term, is_nonterminal=not term))
                # seam: monitor tree_decomposition
                seen_methods = []
                mute = [False]
                orig_td = FZ.tree_decomposition

                def mon(graph, method='min_fill'):
                    verts = list(graph.keys())
                    idx = {v: i for i, v in enumerate(verts)}
                    es = sorted({(min(idx[u], idx[v]), max(idx[u], idx[v])) for u in graph for v in graph[u] if u != v})
                    td = orig_td(graph, method=method)
                    if not mute[0]:
                        seen_methods.append(method)
                    try:
                        tdi = {frozenset(idx[v] for v in b): {frozenset(idx[v] for v in nb) for nb in nbs} for b, nbs in td.items()}
                        bad = TW.check_decomposition(tdi, range(len(verts)), es)
                    except KeyError:
                        bad = [('foreign-vertex', '')]
                    if bad:
                        # an invalid decomposition is C10's matter; here it is only counted, so that C05's own clauses
                        # (inlining, no node or edge lost) get to judge what factorize_rule makes of it
                        c.inc('probe.invalid-decomposition-seen')
                        return td
                    if method in ('acb', 'quickbb') and 0 < len(verts) <= 9:
                        tw = TW.treewidth(len(verts), es)
                        if TW.width(tdi) != tw:
                            V('method-ignored', [method, 'decomposition-not-exact'],
                              f'asked for the exact method {method}: width {TW.width(tdi)}, treewidth {tw}; n={len(verts)} edges={es}')
                    return td
                FZ.tree_decomposition = mon
                before = hrg_snap(g)
                method = sc['method']
                feats = [method, sc['entry']]
                try:
                    try:
                        if sc['entry'] == 'fgg':
                            gnew = F.factorize_fgg(g, method=method)
                        elif sc['entry'] == 'hrg':
                            gnew = F.factorize_hrg(g, method=method)
                        else:
                            # history: factorize_rule with one shared label set, rule by rule
                            labels = set(g.edge_labels())
                            gnew = F.FGG(g.start)
                            hr = Stream(case['hist_seed'], 'hist', si)
                            for r in g.all_rules():
                                lb = set(labels)
                                rs_before = rule_snap(r)
                                news = F.factorize_rule(r, method=method, labels=labels)
                                if rule_snap(r) != rs_before:
                                    V('input-mutated', feats + ['rule'], 'factorize_rule changed its rule argument')
                                made = {x.lhs for x in news} - {r.lhs}
                                for el in made:
                                    if any(el.name == o.name for o in lb):
                                        V('fresh-name', feats + ['collides-with-label-set'], f'{el.name} was already in the labels set passed in')
                                if not (lb | made) <= labels:
                                    V('labels-arg', feats + ['not-extended'], 'labels set does not contain the fresh nonterminals after the call')
                                if hr.random() < 0.3:
                                    # interleave an unrelated factorize_hrg call: must not disturb the running set
                                    mute[0] = True
                                    F.factorize_hrg(g, method=hr.choice(['min_fill', 'acb']))
                                    mute[0] = False
                                for x in news:
                                    gnew.add_rule(x)
                                c.inc('hist.factorize_rule')
                            gnew.factors = g.factors
                            gnew.domains = g.domains
                    except Violation:
                        raise
                    except Exception as ex:
                        V('raised', feats + [type(ex).__name__], f'{type(ex).__name__}: {ex}')
                    # the same rules again under every method, and factorize_rule with a caller-supplied label set that
                    # does not mention the rule's own labels (the function must add them itself)
                    mute[0] = True
                    hr2 = Stream(case['hist_seed'], 'hist2', si)
                    for m2 in ('min_fill', 'acb', 'quickbb'):
                        try:
                            F.factorize_hrg(g, method=m2)
                        except Violation:
                            raise
                        except Exception as ex:
                            V('raised', [m2, 'hrg-repeat', type(ex).__name__], f'{type(ex).__name__}: {ex}')
                    for r in g.all_rules():
                        lbs = set() if hr2.random() < 0.5 else set(g.terminals())
                        lb0 = set(lbs)
                        try:
                            news = F.factorize_rule(r, method=method, labels=lbs)
                        except Violation:
                            raise
                        except Exception as ex:
                            V('raised', feats + ['factorize_rule', type(ex).__name__], f'{type(ex).__name__}: {ex}')
                        c.inc('hist.factorize_rule-own-set')
                        own = {r.lhs.name} | {e.label.name for e in r.rhs.edges()}
                        root = [x for x in news if x.lhs == r.lhs]
                        made = [x.lhs for x in news if x.lhs != r.lhs]
                        if len(root) != 1:
                            V('fresh-name', feats + ['collides-with-rule-own-label'], f'{len(root)} of the new rules have the lhs {r.lhs.name} of the rule being factorized')
                        for el in made:
                            if el.name in own or any(el.name == o.name for o in lb0):
                                V('fresh-name', feats + ['collides-with-rule-own-label'], f'fresh nonterminal {el.name} has the name of a label of the rule itself / of the set passed in')
                        if len({el.name for el in made}) != len(made):
                            V('fresh-name', feats + ['duplicate'], f'{[el.name for el in made]}')
                    mute[0] = False
                finally:
                    FZ.tree_decomposition = orig_td
                if hrg_snap(g) != before:
                    V('input-mutated', feats + ['grammar'], 'factorization changed the input grammar')
                c.inc('factorizations.' + sc['entry'])
                nrules_with_nodes = sum(1 for r in g.all_rules())
                if not seen_methods and nrules_with_nodes:
                    c.inc('method-seam.unobserved')
                wrong = [m for m in seen_methods if m != method]
                if wrong:
                    V('method-ignored', [sc['entry'], method, wrong[0]], f'{sc["entry"]} was asked for {method} but decomposed with {wrong[0]}')
                split, fresh = check_factorization(F, g, gnew, c, feats, sc['entry'] != 'hrg')
                split_any = split_any or split
                if split:
                    c.inc('probe.rule-split')
                fact_sigs.add(json.dumps(sorted([sorted(str(n.id) for n in r.rhs.nodes()) for r in gnew.all_rules()])))
                # sum-product preserved
                if zref is not None and sc['entry'] != 'hrg':
                    want, steps = zref
                    try:
                        with recorded_warnings():
                            z2 = F.sum_product(gnew, method='fixed-point', tol=1e-13, kmax=5000).to_dense().to(torch.float64)
                    except Exception as ex:
                        V('sum-product', feats + ['raised', type(ex).__name__], f'sum_product of the factorized grammar raised {type(ex).__name__}: {ex}')
                    tol = 1e-8 if steps <= 3 else 1e-5
                    if z2.shape != want.shape or not torch.allclose(z2, want, rtol=tol, atol=tol * 1e-3):
                        V('sum-product', feats + ['value'], f'factorized grammar: {z2.tolist()}, reference of the original: {want.tolist()}')
                    c.inc('sum_product.compared')
                log.add(si, method, sc['entry'], len(gnew.all_rules()), sorted(el.name for el in fresh))
                for k, v in c.items():
                    counters[k] = counters.get(k, 0) + v
        counters['probe.grammar-with->1-distinct-factorization'] = 1 if len(fact_sigs) > 1 else 0
    except Violation as v:
        viol.append(v.to_json())
    import hashlib
    shape = hashlib.sha256(json.dumps([spec, case['extra_labels'], [[s['alloc'], s['method'], s['entry']] for s in case['scheds']]], sort_keys=True).encode()).hexdigest()[:16]
    return {'violations': viol, 'counters': counters, 'digest': log.digest(), 'shape': shape, 'steps': len(case['scheds']),
            'nontrivial': split_any}
