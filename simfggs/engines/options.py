"""OPTIONS engine (C11): the "buggify" invariant -- an interchangeable path skipped, a knob turned, a fallback
taken, an interpreter started with -O/-OO must leave the answer alone.  One grammar with finite Z per run and a
seeded subset of method x j_precompute x dtype x semiring, each optionally with path-skip / linalg-fail /
block-budget faults and with or without requires_grad; the same engine runs in workers started as python,
python -O and python -OO (each configuration is held against the reference, so interpreters agree pairwise)."""
import copy
import json
import sys

import numpy as np
import torch

from ..rng import Stream
from ..core import Violation, Discard, Log, import_repo
from ..env import Env, recorded_warnings
from ..shrink import list_reductions
from ..gen import grammars as G
from ..ref import grammar_ref as GR
from .. import build
from .present import semiring_obj, lift
from .solver import jacobian_bound

RULE = {'C11': 'seeded grammar with finite, well-conditioned Z (rho(J*) <= 0.9) x >=6 configurations of method x j_precompute x dtype x semiring '
               '(+ requires_grad, skipped reduce_equation fast path, linalg.solve failure, einsum block budget), executed by workers running as '
               'python / python -O / python -OO. non-trivial: recursive grammar or >=2 rules, and >=6 configurations compared; distinct = distinct '
               '(grammar, configuration set) digests'}
DISTINCT = 'distinct (grammar, configuration set, interpreter level) triples'
SIMULATED = ['solver options as knobs', 'interpreter optimisation level (python, -O, -OO worker legs)', 'reduce_equation fast path skipped', 'torch.linalg.solve failure', 'einsum block budget']
ORACLES = ['reference LFP with per-run bound for every configuration', 'pairwise gradient agreement', 'cross-semiring relations (Log = log Real, Bool = support, Viterbi <= Log)']
ASSUMPTIONS = ['grammars with rho(J*) > 0.9 or a non-finite reference are discarded', 'j_precompute=True configurations are evaluated after all others (known finding C11-j_precompute)']


def plan(prop, tier):
    legs = [{'hashseed': 0, 'pyflags': []}, {'hashseed': 0, 'pyflags': ['-O']}, {'hashseed': 0, 'pyflags': ['-OO']}]
    if tier == 'quick':
        return {'runs': 1400, 'cap': 90.0, 'det_runs': 15, 'legs': legs}
    return {'cap': 360.0, 'budget_s': 900, 'legs': [dict(l, hashseed=h) for h in (0, 1) for l in legs]}


def generate(prop, seed, tier):
    g = Stream(seed, 'gen')
    rec = g.choice(['none', 'linear', 'linear-mutual', 'any', 'any'])
    menu = g.choice(['small', 'pos', 'zeros']) if rec != 'none' else g.choice(['prob', 'grid', 'zeros', 'small', 'pos'])
    spec = G.gen_spec(g, recursion=rec, weights=menu, max_nodes=4, max_edges=4, max_dom=2 if rec == 'any' else 3,
                      explicit_ids=g.choice(['mixed', 'none']), shapes=g.random() < 0.6)
    if rec != 'none' and (not G.is_recursive(spec) or g.random() < 0.3):
        G.force_recursion(spec, g, nonlinear=(rec == 'any' and g.random() < 0.6))
    if g.random() < 0.25:
        G.add_closure_nt(spec, g, 'small')
    if g.random() < 0.15:
        G.add_unproductive_cycle(spec, g)
    if g.random() < 0.3:
        G.constant_factors(spec, g)
    if g.random() < 0.25:
        G.add_neq_terminal(spec, g, 'small')
    if g.random() < 0.15:
        G.add_onehot_terminals(spec, g)
    if g.random() < 0.1:
        spec = G.ring_chord_spec(g, 'small')
        if g.random() < 0.4:
            G.add_onehot_terminals(spec, g)
    if g.random() < 0.05:
        spec = G.perm_unit_spec(g, 'small')
    tight = False
    if g.random() < 0.08:
        # several independent recursive components; the iteration budget is generous for each (reference step count + 10)
        # but not for all of them together
        spec = G.multi_scc_spec(g)
        tight = True
    cfgs = []
    for _ in range(g.randrange(6, 10)):
        sem = g.choice(['real', 'real', 'real', 'log', 'log', 'viterbi', 'bool'])
        cfgs.append({'semiring': sem, 'method': g.choice(['fixed-point', 'newton', 'newton', 'linear']),
                     'j_precompute': g.random() < 0.25, 'dtype': g.choice(['float64', 'float64', 'float32']),
                     'grad': sem in ('real', 'log') and g.random() < 0.6,
                     'linalg_fail': g.choice([None, None, None, ['all'], [1], [2]]) if sem == 'real' else None,
                     'block_bytes': g.choice([None, None, None, 256, 8]), 'reduce_skip': g.random() < 0.2,
                     'implicit_dtype': g.random() < 0.3,
                     # history: an earlier fixed-point query on the same FGG object under doubled weights, halved in place afterwards
                     'prequery': g.random() < 0.15})
    cli = None
    if g.random() < (0.03 if tier == 'quick' else 0.08):
        cli = {'method': g.choice(['fixed-point', 'newton', 'linear']), 'j': False, 'double': g.random() < 0.7, 'grad_all': g.random() < 0.6,
               'tol': g.choice([1e-6, 1e-9]), 'kmax': g.choice([1000, 5000])}
    return {'engine': 'options', 'prop': prop, 'seed': seed, 'spec': spec, 'cfgs': cfgs, 'cot_seed': g.randrange(1 << 30),
            'pres_seed': g.randrange(1 << 30), 'cli': cli, 'tight_budget': tight}


def reducers(case):
    if case.get('cli'):
        c = copy.deepcopy(case)
        c['cli'] = None
        yield c
    yield from list_reductions(case, ['cfgs'], min_len=1 if not case.get('cli') else 0)
    for ci, cf in enumerate(case['cfgs']):
        for k, v in (('linalg_fail', None), ('block_bytes', None), ('reduce_skip', False), ('grad', False), ('j_precompute', False), ('prequery', False)):
            if cf.get(k):
                c = copy.deepcopy(case)
                c['cfgs'][ci][k] = v
                yield c
        if cf['dtype'] != 'float64':
            c = copy.deepcopy(case)
            c['cfgs'][ci]['dtype'] = 'float64'
            yield c
    spec = case['spec']
    for ri in range(len(spec['rules']) - 1, -1, -1):
        if len(spec['rules']) > 1:
            c = copy.deepcopy(case)
            del c['spec']['rules'][ri]
            yield c
    for ri, r in enumerate(spec['rules']):
        for ei in range(len(r['edges']) - 1, -1, -1):
            c = copy.deepcopy(case)
            del c['spec']['rules'][ri]['edges'][ei]
            yield c


def describe(case):
    return {'rules': [[r['lhs'], [n['label'] for n in r['nodes']], [(e['label'], e['att']) for e in r['edges']], r['ext']] for r in case['spec']['rules']],
            'cfgs': case['cfgs']}


def V(clause, feats, detail):
    raise Violation('C11', clause, feats + ['optimize=%d' % sys.flags.optimize] if sys.flags.optimize else feats, detail)


def run_cfg(F, case, cfg, cot):
    spec = case['spec']
    dtype = getattr(torch, cfg['dtype'])
    out = {'exc': None}
    env = {'alloc': {'mode': 'order', 'seed': case['seed']}, 'axhash': case['seed'], 'dtype': cfg['dtype'],
           'linalg_fail': cfg.get('linalg_fail'), 'block_bytes': cfg.get('block_bytes'), 'reduce_skip': cfg.get('reduce_skip')}
    with Env(env) as e:
        S = semiring_obj(cfg['semiring'], dtype, implicit=bool(cfg.get('implicit_dtype')))
        pres = build.random_presentation(spec, Stream(case['pres_seed'], 'pres'), allow_rename=False, allow_domperm=False, via=('api',))
        B = build.build(spec, pres, interp=True, weights_transform=lift(cfg['semiring']), dtype=dtype, requires_grad=bool(cfg.get('grad')))
        f32 = cfg['dtype'] == 'float32'
        if cfg.get('prequery') and cfg['semiring'] != 'bool' and not any(t.get('pattern') is not None for t in spec['terms'].values()):
            import math as _m
            sh = _m.log(2.0)
            for f_ in B.fgg.factors.values():
                ph = f_.weights.physical
                with torch.no_grad():
                    ph.mul_(2.0) if cfg['semiring'] == 'real' else ph.add_(sh)
            try:
                with recorded_warnings():
                    F.sum_products(B.fgg, semiring=S, method='fixed-point', tol=1e-3, kmax=25)
            except Exception:
                pass
            for f_ in B.fgg.factors.values():
                ph = f_.weights.physical
                with torch.no_grad():
                    ph.div_(2.0) if cfg['semiring'] == 'real' else ph.sub_(sh)
            e.c.inc('hist.prequery-then-inplace-weight-change')
        try:
            with recorded_warnings() as ws:
                zs = F.sum_products(B.fgg, semiring=S, method=cfg['method'], tol=1e-6 if f32 else 1e-12, kmax=case.get('kmax_eff', 20000),
                                    j_precompute=bool(cfg.get('j_precompute')))
            z = zs[B.fgg.start]
            zd = z.to_dense()
            out['value'] = zd.detach().clone()
            out['all'] = {nt: zs[B.labels[nt]].to_dense().detach().clone() for nt in spec['nts']}
            out['warned'] = any('maximum iteration' in str(w.message) for w in ws)
            if cfg.get('grad'):
                cp = cot.to(dtype)
                mask = torch.isfinite(zd.detach())
                loss = (torch.where(mask, zd, torch.zeros_like(zd)) * cp).sum()
                grads = {}
                if loss.requires_grad:
                    loss.backward()
                for n in spec['terms']:
                    w = B.weights[n]
                    ph = w.physical if hasattr(w, 'physical') else w
                    gr = ph.grad
                    if hasattr(w, 'physical'):
                        # gradient w.r.t. the stored elements, laid out densely (unbacked positions get 0)
                        IX = sys.modules['fggs.indices']
                        gr = IX.PatternedTensor(torch.zeros_like(ph) if gr is None else gr, w.paxes, w.vaxes, 0.0).to_dense()
                    else:
                        gr = torch.zeros_like(w) if gr is None else gr
                    grads[n] = gr.detach().to(torch.float64)
                out['grads'] = grads
        except Exception as ex:
            out['exc'] = type(ex).__name__
            out['msg'] = str(ex)[:300]
        out['counters'] = dict(e.c)
    return out


def run_cli(F, case, lin):
    """the same grammar through `python -OO bin/sum_product.py` (the interpreter mode the script asks for in its shebang)"""
    import os
    import subprocess
    import tempfile
    from ..core import REPO
    spec, cli = case['spec'], case['cli']
    with Env({'alloc': {'mode': 'order', 'seed': case['seed']}, 'dtype': 'float64'}):
        B = build.build(spec, None, interp=True, dtype=torch.float64)
        text = json.dumps(F.fgg_to_json(B.fgg))
    fd, path = tempfile.mkstemp(prefix='simfggs-cli-', suffix='.json')
    try:
        with os.fdopen(fd, 'w') as f:
            f.write(text)
        cmd = [sys.executable, '-OO', os.path.join(REPO, 'bin', 'sum_product.py'), path, '-m', cli['method'], '-l', repr(cli['tol']), '-k', str(cli['kmax'])]
        if cli.get('double'):
            cmd.append('-d')
        if cli.get('grad_all'):
            cmd.append('-G')
        env = dict(os.environ)
        env['PYTHONPATH'] = REPO
        env['OMP_NUM_THREADS'] = '1'
        p = subprocess.run(cmd, env=env, capture_output=True, text=True, timeout=120)
    finally:
        os.unlink(path)
    return p.returncode, p.stdout, p.stderr


def execute(case):
    F = import_repo()
    log = Log(keep=False)
    viol = []
    counters = {}
    spec = case['spec']
    if not all(G.dom_size(d) > 0 for d in spec['domains'].values()):
        raise Discard('empty domain')
    ref = GR.GrammarRef(spec, 'real')
    xstar, K, conv = ref.lfp(3000, rtol=1e-13)
    if not conv or not all(np.isfinite(v).all() for v in xstar.values()):
        raise Discard('reference Z not finite')
    bnd1, rho = jacobian_bound(ref, xstar, None, {n: np.ones(ref.shape[n]) for n in spec['nts']})
    if bnd1 is None or rho > 0.9:
        raise Discard('not well conditioned')
    case = dict(case)
    case['kmax_eff'] = (K + 10) if case.get('tight_budget') else 20000
    vref = GR.GrammarRef(spec, 'viterbi')
    vstar, vK, vconv = vref.lfp(3000)
    start = spec['start']
    zstar = np.asarray(xstar[start], dtype=np.float64)
    amp = np.asarray(bnd1[start], dtype=np.float64)       # (I-J*)^-1 1 : amplification of a unit residual
    scale = np.maximum(1.0, np.abs(zstar))
    lin = G.is_linear(spec)
    cr = Stream(case['cot_seed'], 'cot')
    shape = G.sizes_of(spec, spec['nts'][start]['type'])
    cot = torch.tensor([round(cr.random() * 2 - 0.5, 3) for _ in range(G.numel(shape))], dtype=torch.float64).reshape(shape)
    cfgs = sorted(case['cfgs'], key=lambda c: bool(c.get('j_precompute')))
    results = []
    def compare_gradients(results, only_j):
        for sem in ('real', 'log'):
            gs = [(cfg, r) for cfg, r in results if cfg['semiring'] == sem and cfg.get('grad') and 'grads' in r and not r.get('warned')]
            gs.sort(key=lambda x: (bool(x[0].get('j_precompute')), x[0]['dtype'] != 'float64'))
            if len(gs) >= 2:
                base_cfg, base = gs[0]
                for cfg, r in gs[1:]:
                    if only_j != bool(cfg.get('j_precompute') or base_cfg.get('j_precompute')):
                        continue
                    f32 = cfg['dtype'] == 'float32' or base_cfg['dtype'] == 'float32'
                    jp = ['j_precompute'] if (cfg.get('j_precompute') or base_cfg.get('j_precompute')) else []
                    for n in spec['terms']:
                        a, b = base['grads'][n], r['grads'][n]
                        k = float(max(1.0, amp.max())) ** 2
                        rt = (5e-3 if f32 else 1e-6) * k
                        ok = torch.isclose(a, b, rtol=rt, atol=rt * max(1.0, float(a.abs().max()) if a.numel() else 1.0), equal_nan=True)
                        if sem == 'log':
                            # derivative w.r.t. a log-weight that is -inf is not covered by the statement
                            w = torch.tensor(np.asarray(spec['terms'][n]['weights'], dtype=np.float64)).reshape(a.shape)
                            ok = ok | (w <= 0)
                        if not bool(ok.all()):
                            bad = ~ok
                            zero_side = bool(((a[bad] == 0) | (b[bad] == 0)).all())
                            w_here = torch.tensor(np.asarray(spec['terms'][n]['weights'], dtype=np.float64)).reshape(a.shape)
                            # ... or every disagreeing entry is the derivative w.r.t. a weight entry that is exactly 0 (the part of
                            # the iterate it would feed is structurally zero, so fixed-point sees only part of its influence)
                            zero_side = zero_side or bool((w_here[bad] == 0).all())
                            fp = 'fixed-point' in (base_cfg['method'], cfg['method']) and base_cfg['method'] != cfg['method']
                            has_zero_w = any((np.asarray(t['weights'], dtype=np.float64) == 0).any() for t in spec['terms'].values())
                            if not jp and zero_side and fp and has_zero_w:
                                # fixed-point leaves structurally-zero parts of a nonterminal's value out of the autograd graph
                                jp = ['fixed-point-structural-zero']
                            V('gradient', jp + [sem, base_cfg['method'] + '/' + cfg['method'], base_cfg['dtype'] + '/' + cfg['dtype']],
                              f'd/d{n}: {base_cfg} gives {a.tolist()}, {cfg} gives {b.tolist()}')
                    counters['gradients.compared'] = counters.get('gradients.compared', 0) + 1

    def one_config(cfg):
            cfg = dict(cfg)
            if cfg['semiring'] == 'bool':
                cfg['dtype'] = 'float64'
                cfg['grad'] = False
            if cfg['semiring'] == 'log' and cfg.get('grad') and any((np.asarray(t['weights'], dtype=np.float64) <= 0).any() for t in spec['terms'].values()):
                cfg['grad'] = False
            jp = ['j_precompute'] if cfg.get('j_precompute') else []
            feats0 = jp + [cfg['semiring'], cfg['method'], cfg['dtype']]
            r = run_cfg(F, case, cfg, cot)
            for k, v in r.get('counters', {}).items():
                counters[k] = counters.get(k, 0) + v
            counters['configs.run'] = counters.get('configs.run', 0) + 1
            if r['exc'] is not None:
                if cfg['method'] == 'linear' and r['exc'] == 'ValueError' and not lin and 'linearly' in r.get('msg', ''):
                    counters['configs.linear-rejected'] = counters.get('configs.linear-rejected', 0) + 1
                    return
                V('config-raises', jp + [cfg['semiring'], cfg['method'], r['exc']] + (['grad'] if cfg.get('grad') else []),
                  f'configuration {cfg} raised {r["exc"]}: {r.get("msg")} while the grammar has a finite sum-product')
            f32 = cfg['dtype'] == 'float32'
            sem = cfg['semiring']
            got = r['value'].to(torch.float64).numpy() if sem != 'bool' else r['value'].numpy()
            tolr = (1e-6 if f32 else 1e-12)
            eps = 2e-4 if f32 else 1e-9
            if r.get('warned'):
                # the budget is generous by construction (20000, or the reference's own step count + 10 per component), so a
                # warning excuses nothing: the value is judged like any other
                counters['configs.warned'] = counters.get('configs.warned', 0) + 1
            if sem == 'real':
                allow = 1.5 * tolr * amp + eps * scale * amp
                if not np.all(np.abs(got - zstar) <= allow):
                    V('value', feats0, f'{cfg}: Z = {got.tolist()}, reference {zstar.tolist()}, allowed deviation {allow.tolist()}')
            elif sem == 'log':
                with np.errstate(divide='ignore'):
                    lz = np.log(zstar)
                allow = (1.5 * tolr * amp * 2 + eps * amp)
                ok = np.where(np.isfinite(lz), np.abs(got - lz) <= allow + eps * np.abs(lz), got == lz)
                if not np.all(ok):
                    V('value', feats0 + ['log-vs-real'], f'{cfg}: log Z = {got.tolist()}, log of the reference Real result {lz.tolist()}')
            elif sem == 'bool':
                if not np.array_equal(got.astype(bool), zstar > 0):
                    V('value', feats0 + ['bool-vs-support'], f'{cfg}: {got.tolist()}, support of the Real result {(zstar > 0).tolist()}')
            else:
                with np.errstate(divide='ignore'):
                    lz = np.log(zstar)
                if not np.all(got <= lz + eps * np.maximum(1.0, np.abs(np.where(np.isfinite(lz), lz, 0.0))) + 1e-6):
                    V('value', feats0 + ['viterbi-exceeds-log'], f'{cfg}: Viterbi {got.tolist()} exceeds log Z {lz.tolist()}')
                if vconv:
                    vs = np.asarray(vstar[start], dtype=np.float64)
                    ok = np.where(np.isfinite(vs), np.abs(got - vs) <= eps * 10 * np.maximum(1.0, np.abs(vs)) + (1e-5 if f32 else 1e-9), got == vs)
                    if not np.all(ok):
                        V('value', feats0 + ['viterbi'], f'{cfg}: Viterbi {got.tolist()}, reference {vs.tolist()}')
            results.append((cfg, r))
            log.add('cfg', feats0, np.round(np.where(np.isfinite(got.astype(float)), got.astype(float), -1.0), 5 if f32 else 8).tolist())

    try:
        # everything that does not involve j_precompute is decided first -- configurations, their gradients, the
        # Log-vs-Real gradient relation and the CLI leg -- so that the open finding C11-j_precompute-* masks nothing else
        for cfg in cfgs:
            if not cfg.get('j_precompute'):
                one_config(cfg)
        compare_gradients(results, False)
        # Log = log(Real) carried over to gradients: d(sum c.log Z)/d(log w) = w * d(sum (c/Z).Z)/dw
        lg = [(cfg, r) for cfg, r in results if cfg['semiring'] == 'log' and cfg.get('grad') and 'grads' in r and not r.get('warned')
              and not cfg.get('j_precompute') and cfg['dtype'] == 'float64']
        if lg and np.all(zstar > 0):
            cot2 = cot / torch.tensor(zstar, dtype=torch.float64).reshape(cot.shape)
            rcfg = {'semiring': 'real', 'method': 'newton', 'j_precompute': False, 'dtype': 'float64', 'grad': True,
                    'linalg_fail': None, 'block_bytes': None, 'reduce_skip': False}
            rr = run_cfg(F, case, rcfg, cot2)
            if rr['exc'] is None and 'grads' in rr:
                cfg, r = lg[0]
                for n in spec['terms']:
                    w = torch.tensor(np.asarray(spec['terms'][n]['weights'], dtype=np.float64)).reshape(r['grads'][n].shape)
                    a, b = r['grads'][n], w * rr['grads'][n]
                    k = float(max(1.0, amp.max())) ** 2
                    ok = torch.isclose(a, b, rtol=1e-5 * k, atol=1e-6 * k * max(1.0, float(b.abs().max()) if b.numel() else 1.0)) | (w <= 0)
                    if not bool(ok.all()):
                        V('gradient', ['log-vs-real', cfg['method']], f'd/dlog {n} in the Log semiring {a.tolist()} but w * dZ/dw / Z from the Real semiring {b.tolist()}')
                counters['gradients.log-vs-real'] = counters.get('gradients.log-vs-real', 0) + 1
        if case.get('cli'):
            cli = case['cli']
            rc, out, err = run_cli(F, case, lin)
            counters['cli.runs'] = 1
            if cli['method'] == 'linear' and not lin:
                if rc == 0:
                    V('cli', ['linear-accepted'], 'bin/sum_product.py -m linear returned a value for a grammar that is not linearly recursive')
            elif rc != 0 and ("'NoneType' object" in err or 'does not require grad' in err):
                # -G on a grammar with a factor that cannot influence Z: the script fails to print an absent gradient
                # (a C03 / CLI matter, not a C11 clause); counted, not judged
                counters['cli.absent-gradient-crash'] = 1
            elif rc != 0:
                V('cli', ['failed', cli['method']], f'python -OO bin/sum_product.py {cli} exited {rc}: {err[-400:]}')
            else:
                lines = [l for l in out.splitlines() if l.strip()]
                z = np.asarray(json.loads(lines[0].replace('Infinity', '1e999')), dtype=np.float64)
                f32 = not cli.get('double')
                allow = 1.5 * cli['tol'] * amp + (2e-4 if f32 else 1e-9) * scale * amp
                if z.shape != zstar.shape or not np.all(np.abs(z - zstar) <= allow):
                    V('cli', ['value', cli['method']], f'bin/sum_product.py {cli} printed {z.tolist()}, reference {zstar.tolist()}')
                if cli.get('grad_all'):
                    # in-process gradient of sum(Z) for comparison
                    rcfg = {'semiring': 'real', 'method': 'newton', 'j_precompute': False, 'dtype': 'float64', 'grad': True,
                            'linalg_fail': None, 'block_bytes': None, 'reduce_skip': False}
                    dense_case = copy.deepcopy(case)     # the JSON carries dense weights: compare with dense in-process weights
                    for t in dense_case['spec']['terms'].values():
                        t.pop('pattern', None)
                    rr = run_cfg(F, dense_case, rcfg, torch.ones_like(cot))
                    got = {}
                    for l in lines[1:]:
                        if l.startswith('grad['):
                            name = l[5:l.index(']:')]
                            got[name] = np.asarray(json.loads(l[l.index(']:') + 2:].replace('NaN', '0').replace('Infinity', '1e999')), dtype=np.float64)
                    if rr['exc'] is None and 'grads' in rr:
                        for n in spec['terms']:
                            if n not in got:
                                V('cli', ['gradient-missing'], f'no grad[{n}] line in the output')
                            a = rr['grads'][n].numpy()
                            k = float(max(1.0, amp.max())) ** 2
                            rt = (5e-3 if f32 else max(1e-8, 20 * cli['tol'])) * k
                            if got[n].shape != a.shape or not np.all(np.abs(got[n] - a) <= rt * np.maximum(1.0, np.abs(a).max() if a.size else 1.0)):
                                has_zero_w = (np.asarray(spec['terms'][n]['weights'], dtype=np.float64) == 0).any()
                                V('cli', ['gradient'] + (['fixed-point-structural-zero'] if cli['method'] == 'fixed-point' and has_zero_w else []),
                                  f'grad[{n}] printed {got[n].tolist()}, in-process {a.tolist()}')
                        counters['cli.gradients-compared'] = 1
            log.add('cli', cli['method'], rc)
        for cfg in cfgs:
            if cfg.get('j_precompute'):
                one_config(cfg)
        compare_gradients(results, True)
        counters['optimize.%d' % sys.flags.optimize] = 1
    except Violation as v:
        viol.append(v.to_json())
    import hashlib
    shape = hashlib.sha256(json.dumps([spec, case['cfgs'], sys.flags.optimize], sort_keys=True).encode()).hexdigest()[:16]
    return {'violations': viol, 'counters': counters, 'digest': log.digest(), 'shape': shape, 'steps': counters.get('configs.run', 0),
            'nontrivial': (G.is_recursive(spec) or len(spec['rules']) >= 2) and counters.get('configs.run', 0) >= 6}
