"""APIHIST engine (C16, C20): seeded histories of public API calls -- including calls that
must fail and mutation of objects after they were shared -- against an executable model.

Operations carry raw integer *choices* that are resolved against the current pools at
execution time (modulo pool size), so any sub-list of a history is again a history.
"""
import copy
import json

from ..rng import Stream
from ..core import Violation, Counters, Log, import_repo
from ..env import Env
from ..shrink import list_reductions
from . import apihist_model as M

RULE = {
    'C16': 'seeded histories (<=40 calls) of Graph/HRG/FactorGraph/FGG mutators, constructors and copies over a small '
           'universe with deliberate id/label/type clashes; a run is non-trivial if it executed >=5 calls of which >=1 raised '
           'and >=1 mutated an object; distinct = distinct (multiset of op outcomes, final object contents) digests',
    'C20': 'seeded histories of domain/factor construction, binding (add_domain/add_factor/new_finite_*), weight assignment '
           'with right and wrong shapes and shape() queries, interleaved with graph/grammar mutation; non-trivial if >=1 binding '
           'succeeded and >=1 was rejected; distinct = distinct outcome/content digests',
}
DISTINCT = 'distinct digests of (op outcome sequence, final contents of all live objects)'
SIMULATED = ['id allocator (fggs.fggs._id): PRNG order, optional legal reuse of dead ids', 'caller history incl. calls that must fail']
ORACLES = ['executable model of Graph/HRG/FactorGraph/FGG (apihist_model.py)', 'invariants I1-I6 via public accessors',
           'failure atomicity by full observable snapshot', 'copy/== laws', 'domain/factor value-object invariants']
ASSUMPTIONS = ['label/node/edge universe is small (3 node labels, 4 edge-label names, 6 types, 6+4 explicit ids)',
               'where the API text leaves an outcome open the model accepts "raises and unchanged" or "succeeds and invariants hold"']

GRAPH_OPS = ['mk_node', 'mk_edge', 'add_node', 'new_node', 'remove_node', 'add_edge', 'new_edge', 'remove_edge',
             'set_ext', 'copy', 'mk_graph', 'mk_hrg', 'mk_rule', 'add_rule', 'new_rule', 'set_start',
             'add_node_label', 'add_edge_label', 'from_graph', 'from_hrg', 'rule_copy']
INTERP_OPS = ['setup_interp', 'mk_domain', 'add_domain', 'new_finite_domain', 'mk_factor', 'set_weights', 'add_factor',
              'new_finite_factor', 'shape', 'mutate_domain_source', 'inplace_weights']


def plan(prop, tier):
    if tier == 'quick':
        return {'runs': 6000 if prop == 'C16' else 5000, 'cap': 20.0, 'det_runs': 60, 'legs': [{'hashseed': h} for h in (0, 1, 2, 3)]}
    return {'cap': 30.0, 'budget_s': 900, 'legs': [{'hashseed': h} for h in (0, 1, 2, 3, 4, 5, 6, 7)]}


def generate(prop, seed, tier):
    g = Stream(seed, 'gen')
    nops = g.randrange(4, 41 if tier == 'quick' else 61)
    p_interp = {'C16': g.choice([0.0, 0.1, 0.25]), 'C20': g.choice([0.45, 0.6, 0.75])}[prop]
    # swarm: each run enables a random subset of op kinds
    gops = [o for o in GRAPH_OPS if g.random() < 0.8] or ['mk_node', 'add_node']
    for must in ('mk_node', 'mk_graph'):
        if must not in gops:
            gops.append(must)
    iops = [o for o in INTERP_OPS if g.random() < 0.85] or ['mk_domain']
    ops = []
    copy_mode = (prop == 'C16' and g.random() < 0.3)
    if copy_mode:
        # copy-independence of interpreted objects: setup, then copies interleaved with weight/domain/graph mutation
        gops = ['copy', 'copy', 'add_node', 'new_edge', 'mk_node', 'mk_graph', 'add_edge_label', 'new_rule', 'set_start']
        iops = ['setup_interp', 'inplace_weights', 'inplace_weights', 'set_weights', 'add_domain', 'mk_domain',
                'new_finite_factor', 'add_factor', 'mk_factor']
        p_interp = 0.55
    focus = (prop == 'C16' and not copy_mode and g.random() < 0.2)
    if focus:
        # one graph, few nodes, many edge/node additions and removals on it: dense multi-step interplay on a single object
        gops = ['mk_graph', 'new_node', 'new_edge', 'new_edge', 'new_edge', 'add_edge', 'mk_edge', 'remove_edge', 'remove_edge',
                'remove_node', 'remove_node', 'set_ext', 'copy', 'add_node']
        p_interp = 0.0
    for i in range(nops):
        name = g.choice(iops) if g.random() < p_interp else g.choice(gops)
        if copy_mode and i == 0:
            name = 'setup_interp'
        ops.append({'uid': i, 'op': name, 'a': [g.randrange(1 << 16) for _ in range(8)]})
    return {'engine': 'apihist', 'prop': prop, 'seed': seed,
            'env': {'alloc': {'mode': g.choice(['order', 'order', 'reuse', 'seq']), 'seed': seed}},
            'knobs': {'allow_ext_after_share': g.random() < 0.15, 'start_objs': g.randrange(0, 3), 'focus': focus},
            'ops': ops}


def reducers(case):
    yield from list_reductions(case, ['ops'])
    for i, op in enumerate(case['ops']):
        for j, v in enumerate(op['a']):
            if v > 7:
                c = copy.deepcopy(case)
                c['ops'][i]['a'][j] = v % 8
                yield c


def describe(case):
    return {'env': case['env'], 'knobs': case['knobs'], 'ops': [[o['op']] + o['a'][:4] for o in case['ops']]}


# ------------------------------------------------------------------------------------------------

class Machine:
    def __init__(self, case, env):
        self.fggs = import_repo()
        self.case = case
        self.prop = case['prop']
        self.env = env
        self.c = env.c
        self.log = Log(keep=False)
        self.objs = []      # {'kind','real','model','shared_by': set of hrg idx}
        self.nodes = []     # real Node objects
        self.edges = []
        self.rules = []     # (real HRGRule, graph idx)
        self.doms = []      # {'real', 'model', 'src'}
        self.facs = []      # {'real', 'doms': [dom idx]}
        self.violations = []
        self.outcomes = []

    # ---- helpers
    def V(self, prop, clause, feats, detail):
        raise Violation(prop, clause, feats, detail)

    def nl(self, i):
        return self.fggs.NodeLabel(M.NL[i % len(M.NL)])

    def el(self, a, b, c):
        name = M.ELN[a % len(M.ELN)]
        typ = M.TYPES[b % len(M.TYPES)]
        term = (c % 3 == 0)
        return self.fggs.EdgeLabel(name, [self.fggs.NodeLabel(x) for x in typ], is_terminal=term, is_nonterminal=not term)

    def pick_obj(self, c, kinds):
        idx = [i for i, o in enumerate(self.objs) if o['kind'] in kinds]
        if not idx:
            return None
        if self.case['knobs'].get('focus') and c % 8 != 0:
            return idx[0]
        return idx[c % len(idx)]

    def new_obj(self, kind, real, model):
        self.objs.append({'kind': kind, 'real': real, 'model': model})
        return len(self.objs) - 1

    def snaps(self):
        return [M.snap(o['real']) for o in self.objs]

    def shared_mutation_blocked(self, gi, labels=(), new_type=None):
        """True if mutating graph gi this way would be the 'mutate-after-share' fault and the run did not enable it"""
        hs = [o for o in self.objs if 'rules' in o['model'] and any(r[1] == gi for r in o['model']['rules'])]
        if not hs:
            return False
        visible = False
        for h in hs:
            for lab in labels:
                if lab not in h['model']['elabels']:
                    visible = True
        if new_type is not None and list(new_type) != [n[1] for n in self.objs[gi]['model']['ext']]:
            visible = True
        if not visible:
            return False
        if self.case['knobs'].get('allow_ext_after_share'):
            self.c.inc('fault.mutate-after-share.fired')
            return False
        return True

    def is_shared_rhs(self, gi):
        return any('rules' in o['model'] and any(r[1] == gi for r in o['model']['rules']) for o in self.objs)

    # ---- oracle after every call
    def after(self, opname, gi, before, raised, expect, open_ok=False):
        """expect: None (no model prediction; adopt) | 'raise' | 'ok' (model already updated)"""
        after = self.snaps()
        if raised is not None:
            # failure atomicity: a call that raises leaves every object observably unchanged
            for i, (b, a) in enumerate(zip(before, after)):
                if b != a:
                    keys = [k for k in b if b[k] != a.get(k)]
                    self.V('C16', 'atomicity',
                           [opname, type(raised).__name__, ','.join(keys)],
                           f'{opname} raised {type(raised).__name__}: {raised} but object {i} changed in {keys}')
            if len(after) != len(before):
                raise RuntimeError('object count changed on raise')
            if expect == 'ok' and not open_ok:
                self.V(self.owner(opname), 'spurious-failure', [opname, type(raised).__name__],
                       f'{opname} must succeed but raised {type(raised).__name__}: {raised}')
        else:
            if expect == 'raise' or expect is None or open_ok:
                # outcome left open by the statement: adopt the real state, invariants decide
                if gi is not None:
                    o = self.objs[gi]
                    o['model'] = M.model_from_snapshot(after[gi], o['model'])
            # model == real for every live object (effect on receiver, frame for all others)
            for i, o in enumerate(self.objs):
                ms = M.content(M.m_snapshot(o['model'], self.objs))
                rs = M.content(after[i])
                if ms != rs:
                    keys = [k for k in ms if ms[k] != rs.get(k)]
                    which = 'receiver' if i == gi else 'other-object'
                    # a change of any object other than the receiver is a frame / copy-independence failure (C16)
                    self.V(self.owner(opname) if i == gi else 'C16', 'effect', [opname, which, ','.join(keys)],
                           f'after {opname} object {i} ({o["kind"]}) differs from model in {keys}: '
                           f'model={json.dumps({k: ms[k] for k in keys}, default=str)[:500]} '
                           f'real={json.dumps({k: rs[k] for k in keys}, default=str)[:500]}')
        # invariants on every live object and every value object
        shared = gi is not None and 'rules' not in self.objs[gi]['model'] and self.is_shared_rhs(gi)
        for i, o in enumerate(self.objs):
            for clause, detail in M.check_invariants(o['real'], f'obj{i}'):
                feats = [clause, 'after-' + opname]
                if shared and 'rules' in o['model']:
                    # the receiver is a Graph that some grammar holds as a right-hand side
                    feats = ['mutate-after-share'] + feats
                self.V('C16', 'invariant', feats, detail)
        for e in self.edges:
            if tuple(e.label.type) != tuple(v.label for v in e.nodes):
                self.V('C16', 'invariant', ['I4-edge-value', 'after-' + opname], f'Edge {e.id}')
        for r, _ in self.rules:
            pass
        self.check_values(opname)
        return after

    def owner(self, opname):
        return 'C20' if opname in INTERP_OPS else 'C16'

    def owner_for_keys(self, opname, keys):
        if opname in INTERP_OPS:
            return 'C20'
        return 'C16'

    # ---- C20 value-object invariants (every domain and factor a history creates, at every step)
    def check_values(self, opname):
        import torch
        for di, d in enumerate(self.doms):
            real, m = d['real'], d['model']
            feats = [m[0], 'after-' + opname]
            if m[0] == 'finite':
                vals = m[1]
                n = len(vals)
                if real.size() != n:
                    self.V('C20', 'domain-size', feats, f'dom{di} size {real.size()} != {n}')
                for i, v in enumerate(vals):
                    if real.numberize(v) != i:
                        self.V('C20', 'domain-numberize', feats, f'dom{di} numberize({v!r})={real.numberize(v)} != {i}')
                    if real.denumberize(i) != v:
                        self.V('C20', 'domain-denumberize', feats, f'dom{di} denumberize({i})={real.denumberize(i)!r} != {v!r}')
                    if not real.contains(v):
                        self.V('C20', 'domain-contains', feats, f'dom{di} contains({v!r}) false')
                for v in ('zz-absent', -7, (9, 9)):
                    if v not in vals and real.contains(v):
                        self.V('C20', 'domain-contains', feats, f'dom{di} contains({v!r}) true')
            else:
                n = m[1]
                if real.size() != n:
                    self.V('C20', 'domain-size', feats, f'dom{di} size {real.size()} != {n}')
                for i in range(n):
                    if real.numberize(i) != i or real.denumberize(i) != i or not real.contains(i):
                        self.V('C20', 'domain-numberize', feats, f'range dom{di} at {i}')
                if real.contains(n) or real.contains(-1):
                    self.V('C20', 'domain-contains', feats, f'range dom{di} contains out-of-range')
        # equality by content
        for i, a in enumerate(self.doms):
            for j, b in enumerate(self.doms):
                want = (a['model'] == b['model'])
                got = (a['real'] == b['real'])
                ne = (a['real'] != b['real'])
                if got != want or ne == got:
                    self.V('C20', 'domain-equality', [a['model'][0], b['model'][0], 'after-' + opname],
                           f'dom{i}==dom{j}: got {got}, != gives {ne}, want {want}')
        # ... and against short-lived domains built for the comparison only (equal content, then different content): the
        # verdict must depend on content, not on which objects happened to be compared before
        F_ = self.fggs
        for i, a in enumerate(self.doms[:4]):
            if a['model'][0] != 'finite':
                continue
            vals = list(a['model'][1])
            for want, other in ((True, list(vals)), (False, (vals[::-1] if len(vals) > 1 and vals[::-1] != vals else vals + ['#other'])),
                                (True, list(vals))):
                try:
                    tmp = F_.FiniteDomain(other)
                except Exception:
                    break
                got = (a['real'] == tmp)
                got2 = (tmp == a['real'])
                del tmp
                if got != want or got2 != want:
                    self.V('C20', 'domain-equality', ['finite', 'temporary', 'after-' + opname],
                           f'dom{i} ({vals!r}) == a fresh domain over {other!r}: got {got} / reversed {got2}, want {want}')
            self.c.inc('probe.domain-vs-temporary')
        for fi, f in enumerate(self.facs):
            real = f['real']
            dm = [self.doms[k]['model'] for k in f['doms']]
            sizes = [len(m[1]) if m[0] == 'finite' else m[1] for m in dm]
            w = real.weights
            if tuple(w.shape) != tuple(sizes):
                self.V('C20', 'factor-shape', ['after-' + opname], f'fac{fi} weights shape {tuple(w.shape)} != domain sizes {sizes}')
            dense = f['dense']
            got = w.to_dense()
            if got.shape != dense.shape or not torch.equal(got, dense):
                self.V('C20', 'factor-weights-drift', ['after-' + opname], f'fac{fi} weights changed without assignment')
            # apply at a few positions
            import itertools
            for pos in itertools.islice(itertools.product(*[range(s) for s in sizes]), 6):
                vals = [m[1][p] if m[0] == 'finite' else p for m, p in zip(dm, pos)]
                a = real.apply(vals)
                want = dense[pos] if len(pos) else dense
                if not torch.equal(torch.as_tensor(a), want):
                    self.V('C20', 'factor-apply', ['arity%d' % len(sizes), 'after-' + opname], f'fac{fi}.apply({vals})={a} != {want}')
        for i, a in enumerate(self.facs):
            for j, b in enumerate(self.facs):
                want = ([self.doms[k]['model'] for k in a['doms']] == [self.doms[k]['model'] for k in b['doms']]
                        and a['dense'].shape == b['dense'].shape and bool(torch.equal(a['dense'], b['dense'])))
                got = (a['real'] == b['real'])
                if bool(got) != want:
                    self.V('C20', 'factor-equality', ['after-' + opname], f'fac{i}==fac{j}: got {got} want {want}')

    # ---- == laws over live objects
    def check_eq_laws(self, opname, snaps):
        n = len(self.objs)
        eq = [[None] * n for _ in range(n)]
        for i in range(n):
            for j in range(n):
                a, b = self.objs[i]['real'], self.objs[j]['real']
                e = (a == b)
                ne = (a != b)
                eq[i][j] = bool(e)
                if bool(ne) == bool(e):
                    self.V('C16', 'eq-laws', ['ne-not-negation', 'after-' + opname], f'obj{i},obj{j}')
        for i in range(n):
            if not eq[i][i]:
                self.V('C16', 'eq-laws', ['reflexive', self.objs[i]['kind']], f'obj{i} != itself')
            for j in range(n):
                if eq[i][j] != eq[j][i]:
                    self.V('C16', 'eq-laws', ['symmetric', self.objs[i]['kind'], self.objs[j]['kind']], f'obj{i},obj{j}')
                if eq[i][j] and M.eq_key(snaps[i]) != M.eq_key(snaps[j]):
                    self.V('C16', 'eq-laws', ['distinguishes', self.objs[i]['kind'], self.objs[j]['kind']],
                           f'obj{i}==obj{j} although nodes/edges/ext/rules/start differ')
                for k in range(n):
                    if eq[i][j] and eq[j][k] and not eq[i][k]:
                        self.V('C16', 'eq-laws', ['transitive'], f'obj{i},obj{j},obj{k}')
        # a copy stays equal to its original for as long as neither was changed (their observable snapshots coincide):
        # queries made in between are pure reads
        for gi_, ci_ in getattr(self, 'copy_pairs', []):
            if gi_ < n and ci_ < n and snaps[gi_] == snaps[ci_] and not (eq[gi_][ci_] and eq[ci_][gi_]):
                self.V('C16', 'copy-equal', [self.objs[gi_]['kind'], 'after-reads', 'after-' + opname],
                       f'obj{ci_} is a copy of obj{gi_}, neither was changed since (equal snapshots), yet they compare unequal')

    # ---- run
    def run(self):
        F = self.fggs
        k = self.case['knobs']
        for _ in range(k.get('start_objs', 0)):
            self.new_obj('Graph', F.Graph(), M.m_graph('Graph'))
        snaps = self.snaps()
        for op in self.case['ops']:
            snaps = self.step(op, snaps)
        self.check_eq_laws('end', snaps)
        self.log.add('final', [M.content(s) for s in snaps])

    def step(self, op, before):
        name, a = op['op'], op['a']
        fn = getattr(self, 'op_' + name)
        self.c.inc('op.' + name)
        r = fn(a, before)
        # r = (gi, raised, expect, open_ok) or None if op was a no-op (empty pool)
        if r is None:
            self.c.inc('op.noop')
            self.outcomes.append([name, 'noop'])
            return before
        gi, raised, expect, open_ok = r
        out = 'raise:' + type(raised).__name__ if raised is not None else 'ok'
        if raised is not None:
            self.c.inc('fault.must-fail-call.fired' if expect == 'raise' else 'call.raised-open')
        self.outcomes.append([name, out])
        self.log.add(op['uid'], name, out)
        after = self.after(name, gi, before, raised, expect, open_ok)
        if name in ('copy', 'rule_copy', 'from_graph', 'from_hrg') or len(self.outcomes) % 7 == 0:
            self.check_eq_laws(name, after)
        return after

    def call(self, fn, *args, **kw):
        try:
            return fn(*args, **kw), None
        except Exception as e:  # the library's answer, classified by the oracle
            return None, e

    # ================= graph-side operations
    def op_mk_graph(self, a, before):
        F = self.fggs
        if len(self.objs) >= 9:
            return None
        if a[0] % 3 == 0:
            self.new_obj('FactorGraph', F.FactorGraph(), M.m_graph('FactorGraph'))
        else:
            self.new_obj('Graph', F.Graph(), M.m_graph('Graph'))
        before.append(M.snap(self.objs[-1]['real']))
        return (len(self.objs) - 1, None, 'ok', False)

    def op_mk_hrg(self, a, before):
        F = self.fggs
        if len(self.objs) >= 9:
            return None
        kind = 'FGG' if a[0] % 2 == 0 else 'HRG'
        cls = F.FGG if kind == 'FGG' else F.HRG
        mode = 1 + a[1] % 3     # HRG(None) is outside the statement (it raises AttributeError on this tree)
        if mode == 1:
            nm = M.ELN[a[2] % len(M.ELN)]
            arg, mstart = nm, [nm, [], False]
        else:
            el = self.el(a[2], a[3], 1 if mode == 2 else a[4])
            arg, mstart = el, M.s_label(el)
        h, exc = self.call(cls, arg)
        if exc is not None:
            want = 'raise' if (mstart is not None and mstart[2]) else 'ok'
            return (None, exc, want, False)
        if mstart is not None and mstart[2]:
            # terminal start accepted: outcome not in the statement; adopt
            self.new_obj(kind, h, M.m_hrg(kind, mstart))
            before.append(M.snap(h))
            return (len(self.objs) - 1, None, None, True)
        self.new_obj(kind, h, M.m_hrg(kind, mstart))
        before.append(M.snap(h))
        return (len(self.objs) - 1, None, 'ok', False)

    def op_mk_node(self, a, before):
        F = self.fggs
        if len(self.nodes) >= 40:
            return None
        label = self.nl(a[0])
        nid = None if a[1] % 3 == 0 else M.NID[a[2] % len(M.NID)]
        n = F.Node(label, id=nid)
        self.nodes.append(n)
        return (None, None, 'ok', False)

    def pick_node(self, c, gi=None, mode=0):
        """mode 0: a node of graph gi; 1: any pool node; 2: same id as a node of gi but another label"""
        F = self.fggs
        if gi is not None and mode in (0, 2):
            ns = list(self.objs[gi]['real'].nodes())
            if ns:
                n = ns[c % len(ns)]
                if mode == 0:
                    return n
                other = M.NL[(M.NL.index(n.label.name) + 1 + c % 2) % len(M.NL)] if n.label.name in M.NL else 'A'
                if isinstance(n.id, str):
                    return F.Node(F.NodeLabel(other), id=n.id)
                return n   # implicit ids cannot be forged through the public API
        if not self.nodes:
            return None
        return self.nodes[c % len(self.nodes)]

    def nodes_for_type(self, typ, a, gi=None):
        """pick nodes with the demanded labels, preferring nodes of graph gi; create missing ones"""
        F = self.fggs
        out = []
        for k, lab in enumerate(typ):
            cands = []
            if gi is not None and a[k % len(a)] % 4 != 0:
                cands = [n for n in self.objs[gi]['real'].nodes() if n.label.name == lab]
            if not cands:
                cands = [n for n in self.nodes if n.label.name == lab]
            prev = [n for n in out if n.label.name == lab]
            if prev and a[(k + 5) % len(a)] % 3 == 0:
                # the same node attached twice
                out.append(prev[-1])
                self.c.inc('probe.repeated-attachment')
            elif cands and (a[(k + 1) % len(a)] % 5 != 0 or self.case['knobs'].get('focus')):
                out.append(cands[a[(k + 2) % len(a)] % len(cands)])
            else:
                n = F.Node(F.NodeLabel(lab), id=None if a[(k + 3) % len(a)] % 2 else M.NID[a[(k + 4) % len(a)] % len(M.NID)])
                self.nodes.append(n)
                out.append(n)
        return out

    def op_mk_edge(self, a, before):
        F = self.fggs
        if len(self.edges) >= 40:
            return None
        el = self.el(a[0], a[1], a[2])
        gi = self.pick_obj(a[3], ('Graph', 'FactorGraph'))
        nodes = self.nodes_for_type([nl.name for nl in el.type], a[3:], gi)
        bad = (a[4] % 6 == 0)
        if bad:
            # wrong label somewhere, or wrong arity
            if nodes and a[5] % 2 == 0:
                n = nodes[0]
                nodes = [F.Node(F.NodeLabel(M.NL[(M.NL.index(n.label.name) + 1) % 3]))] + nodes[1:]
            elif a[5] % 4 == 1 and nodes:
                nodes = nodes[:-1]
            else:
                nodes = nodes + [F.Node(F.NodeLabel('A'))]
        eid = None if a[6] % 3 == 0 else M.EID[a[7] % len(M.EID)]
        e, exc = self.call(F.Edge, el, nodes, id=eid)
        if exc is None:
            self.edges.append(e)
            if bad:
                self.V('C16', 'invariant', ['I4-edge-value', 'Edge-constructor-accepted'],
                       f'Edge({el.name}:{[x.name for x in el.type]}, nodes labelled {[n.label.name for n in nodes]}) was accepted')
        return (None, exc, 'raise' if bad else 'ok', False)

    def op_add_node(self, a, before):
        gi = self.pick_obj(a[0], ('Graph', 'FactorGraph'))
        if gi is None:
            return None
        n = self.pick_node(a[1], gi, mode=[1, 1, 1, 0, 2][a[2] % 5])
        if n is None:
            return None
        m = self.objs[gi]['model']
        pres = M.m_node_present(m, M.s_node(n))
        _, exc = self.call(self.objs[gi]['real'].add_node, n)
        if pres is None:
            if exc is None:
                m['nodes'].append(M.s_node(n))
                M.m_reg_nlabel(m, n.label.name)
            return (gi, exc, 'ok', False)
        return (gi, exc, 'raise', False)

    def op_new_node(self, a, before):
        gi = self.pick_obj(a[0], ('Graph', 'FactorGraph'))
        if gi is None:
            return None
        g = self.objs[gi]['real']
        m = self.objs[gi]['model']
        lab = M.NL[a[1] % 3]
        nid = None if a[2] % 2 == 0 else M.NID[a[3] % len(M.NID)]
        pres = nid is not None and any(n[0] == nid for n in m['nodes'])
        n, exc = self.call(g.new_node, lab, id=nid)
        if exc is None:
            self.nodes.append(n)
            if not pres:
                m['nodes'].append(M.s_node(n))
                M.m_reg_nlabel(m, lab)
        return (gi, exc, 'raise' if pres else 'ok', False)

    def op_remove_node(self, a, before):
        gi = self.pick_obj(a[0], ('Graph', 'FactorGraph'))
        if gi is None:
            return None
        n = self.pick_node(a[1], gi, mode=[0, 0, 0, 1, 2][a[2] % 5])
        recent = getattr(self, 'recent_nodes', None)
        if recent and recent[1] and a[3] % 3 != 2 and recent[0] < len(self.objs) and self.objs[recent[0]].get('real') is not None \
                and self.objs[recent[0]]['kind'] in ('Graph', 'FactorGraph'):
            # a node of the edge removed most recently, in the graph it was removed from (it may still be attached elsewhere)
            gi = recent[0]
            n = recent[1][a[1] % len(recent[1])]
            self.c.inc('probe.remove_node-of-recently-removed-edge')
        if n is None:
            return None
        m = self.objs[gi]['model']
        sn = M.s_node(n)
        pres = M.m_node_present(m, sn)
        _, exc = self.call(self.objs[gi]['real'].remove_node, n)
        if pres is None:
            return (gi, exc, 'raise', False)
        if pres == 'other':
            self.c.inc('probe.remove_node-id-under-other-label')
            return (gi, exc, None, True)
        attached = any(sn in e[2] for e in m['edges']) or sn in m['ext']
        if attached:
            return (gi, exc, 'raise', False)
        if exc is None:
            m['nodes'].remove(sn)
        return (gi, exc, 'ok', False)

    def _model_add_edge(self, m, e):
        """returns expectation: 'ok'|'raise'|None(open) and applies on ok"""
        se = M.s_edge(e)
        if any(x[0] == se[0] and type(x[0]) is type(se[0]) for x in m['edges']):
            return 'raise'
        if M.m_elabel_conflict(m, se[1]):
            return 'raise'
        st = [M.m_node_present(m, sn) for sn in se[2]]
        if 'other' in st:
            return None
        # two attachment nodes with the same id but different labels inside one edge
        for i, x in enumerate(se[2]):
            for y in se[2][:i]:
                if x[0] == y[0] and x != y:
                    return None
        return 'ok'

    def _model_apply_add_edge(self, m, e):
        se = M.s_edge(e)
        for sn in se[2]:
            if M.m_node_present(m, sn) is None:
                m['nodes'].append(sn)
                M.m_reg_nlabel(m, sn[1])
        m['edges'].append(se)
        M.m_reg_elabel(m, se[1])

    def op_add_edge(self, a, before):
        gi = self.pick_obj(a[0], ('Graph', 'FactorGraph'))
        if gi is None or not self.edges:
            return None
        g = self.objs[gi]['real']
        mode = a[2] % 4
        es = list(g.edges())
        e = es[a[1] % len(es)] if (mode == 0 and es) else self.edges[a[1] % len(self.edges)]
        m = self.objs[gi]['model']
        if self.shared_mutation_blocked(gi, [M.s_label(e.label)]):
            return None
        expect = self._model_add_edge(m, e)
        _, exc = self.call(g.add_edge, e)
        if expect is None:
            self.c.inc('probe.add_edge-node-id-under-other-label')
            return (gi, exc, None, True)
        if expect == 'ok' and exc is None:
            self._model_apply_add_edge(m, e)
        return (gi, exc, expect, False)

    def op_new_edge(self, a, before):
        F = self.fggs
        gi = self.pick_obj(a[0], ('Graph', 'FactorGraph'))
        if gi is None:
            return None
        g = self.objs[gi]['real']
        m = self.objs[gi]['model']
        typ = M.TYPES[a[1] % len(M.TYPES)]
        nodes = self.nodes_for_type(list(typ), a[2:], gi)
        name = M.ELN[a[3] % len(M.ELN)]
        flags = [(True, False), (False, True), (True, False), (False, True), (True, True), (False, False)][a[4] % 6]
        eid = None if a[5] % 2 == 0 else M.EID[a[6] % len(M.EID)]
        if flags[0] != flags[1] and self.shared_mutation_blocked(gi, [[name, list(typ), flags[0]]]):
            return None
        e, exc = self.call(g.new_edge, name, nodes, is_terminal=flags[0], is_nonterminal=flags[1], id=eid)
        if flags[0] == flags[1]:
            return (gi, exc, 'raise', False)
        if exc is None:
            self.edges.append(e)
        lab = [name, list(typ), flags[0]]
        se_id = eid
        if se_id is not None and any(x[0] == se_id for x in m['edges']):
            return (gi, exc, 'raise', False)
        if M.m_elabel_conflict(m, lab):
            return (gi, exc, 'raise', False)
        st = [M.m_node_present(m, M.s_node(n)) for n in nodes]
        dupdiff = any(x.id == y.id and x != y for i, x in enumerate(nodes) for y in nodes[:i])
        if 'other' in st or dupdiff:
            return (gi, exc, None, True)
        if exc is None:
            self._model_apply_add_edge(m, e)
        return (gi, exc, 'ok', False)

    def op_remove_edge(self, a, before):
        gi = self.pick_obj(a[0], ('Graph', 'FactorGraph'))
        if gi is None:
            return None
        g = self.objs[gi]['real']
        es = list(g.edges())
        reps = [x for x in es if len({id(v) for v in x.nodes}) < len(x.nodes)]
        if reps and a[3] % 2 == 0:
            # prefer an edge that is attached to one node twice
            e = reps[a[1] % len(reps)]
            self.c.inc('probe.remove_edge-with-repeated-attachment')
        elif es and a[2] % 4 != 0:
            e = es[a[1] % len(es)]
        elif self.edges:
            e = self.edges[a[1] % len(self.edges)]
        else:
            return None
        m = self.objs[gi]['model']
        se = M.s_edge(e)
        same = se in m['edges']
        idpres = any(x[0] == se[0] and type(x[0]) is type(se[0]) for x in m['edges'])
        _, exc = self.call(g.remove_edge, e)
        if exc is None:
            self.recent_nodes = (gi, list(e.nodes))
        if not idpres:
            return (gi, exc, 'raise', False)
        if not same:
            return (gi, exc, None, True)
        if exc is None:
            m['edges'].remove(se)
        return (gi, exc, 'ok', False)

    def op_set_ext(self, a, before):
        gi = self.pick_obj(a[0], ('Graph', 'FactorGraph'))
        if gi is None:
            return None
        g = self.objs[gi]['real']
        m = self.objs[gi]['model']
        k = a[1] % 4
        nodes = []
        for i in range(k):
            n = self.pick_node(a[2 + i], gi, mode=[0, 0, 1, 2][a[(3 + i) % 8] % 4])
            if n is not None:
                nodes.append(n)
        if self.shared_mutation_blocked(gi, new_type=[n.label.name for n in nodes]):
            return None
        sns = [M.s_node(n) for n in nodes]
        st = [M.m_node_present(m, sn) for sn in sns]
        dupdiff = any(x[0] == y[0] and x != y for i, x in enumerate(sns) for y in sns[:i])

        def setext():
            g.ext = nodes
        _, exc = self.call(setext)
        if 'other' in st or dupdiff:
            self.c.inc('probe.ext-node-id-under-other-label')
            return (gi, exc, None, True)
        if exc is None:
            for sn in sns:
                if M.m_node_present(m, sn) is None:
                    m['nodes'].append(sn)
                    M.m_reg_nlabel(m, sn[1])
            m['ext'] = sns
        return (gi, exc, 'ok', False)

    def _copy_model(self, gi):
        """deep copy of the model; the rules of a grammar copy refer to new graph objects"""
        o = self.objs[gi]
        m = copy.deepcopy(o['model'])
        return m

    def op_copy(self, a, before):
        gi = self.pick_obj(a[0], ('Graph', 'FactorGraph', 'HRG', 'FGG'))
        if gi is None or len(self.objs) >= 12:
            return None
        o = self.objs[gi]
        c, exc = self.call(o['real'].copy)
        if exc is not None:
            return (gi, exc, 'ok', False)
        m = self._copy_model(gi)
        ci = self.new_obj(o['kind'], c, m)
        self.__dict__.setdefault('copy_pairs', []).append((gi, ci))
        if hasattr(c, 'factors'):
            self.__dict__.setdefault('copy_made_factors', []).extend((f_, ci) for f_ in c.factors.values())
        if 'rules' in m:
            # rhs graphs of the copy are new, independently mutable objects
            real_rules = c.all_rules()
            # model rule order == all_rules order grouped by lhs first-appearance
            order = []
            for lhs, g_old in m['rules']:
                order.append((lhs, g_old))
            grouped = []
            seen = []
            for lhs, _ in order:
                if lhs not in seen:
                    seen.append(lhs)
            for lhs in seen:
                grouped += [(l, g) for (l, g) in order if l == lhs]
            if len(grouped) != len(real_rules):
                self.V('C16', 'copy-equal', [o['kind'], 'rule-count'], f'{len(grouped)} vs {len(real_rules)}')
            newrules = []
            for (lhs, g_old), rr in zip(grouped, real_rules):
                gm = copy.deepcopy(self.objs[g_old]['model'])
                gm['kind'] = type(rr.rhs).__name__
                ni = self.new_obj('Graph', rr.rhs, gm)
                newrules.append([lhs, ni])
                self.rules.append((rr, ni))
            # keep model order aligned with original relative order
            m['rules'] = newrules
        while len(before) < len(self.objs):
            before.append(M.snap(self.objs[len(before)]['real']))
        self.c.inc('probe.copy.' + o['kind'])
        if not (c == o['real']) or (c != o['real']):
            self.V('C16', 'copy-equal', [o['kind'], 'not=='], f'copy of obj{gi} is not == to its original')
        sc, so = M.content(M.snap(c)), M.content(M.snap(o['real']))
        if sc != so:
            keys = [k for k in sc if sc[k] != so.get(k)]
            self.V('C16', 'copy-equal', [o['kind'], ','.join(keys)], f'copy of obj{gi} differs from original in {keys}')
        return (ci, None, 'ok', False)

    def op_rule_copy(self, a, before):
        if not self.rules or len(self.objs) >= 12:
            return None
        r, gi = self.rules[a[0] % len(self.rules)]
        c, exc = self.call(r.copy)
        if exc is not None:
            # a rule whose rhs was mutated after sharing may legitimately fail to copy
            return (None, exc, None, True)
        gm = copy.deepcopy(self.objs[gi]['model'])
        ni = self.new_obj('Graph', c.rhs, gm)
        self.rules.append((c, ni))
        before.append(M.snap(c.rhs))
        if c.lhs != r.lhs:
            self.V('C16', 'copy-equal', ['HRGRule', 'lhs'], 'rule copy has another lhs')
        if not (c == r) and M.eq_key(M.snap(c.rhs)) == M.eq_key(M.snap(r.rhs)):
            self.V('C16', 'copy-equal', ['HRGRule', 'not=='], 'rule copy is not == to its original')
        return (ni, None, 'ok', False)

    def op_mk_rule(self, a, before):
        F = self.fggs
        gi = self.pick_obj(a[0], ('Graph', 'FactorGraph'))
        if gi is None or len(self.rules) >= 20:
            return None
        g = self.objs[gi]['real']
        mode = a[1] % 5
        if mode <= 2:
            lhs = F.EdgeLabel(M.ELN[a[2] % len(M.ELN)], g.type, is_nonterminal=True)
        elif mode == 3:
            lhs = F.EdgeLabel(M.ELN[a[2] % len(M.ELN)], g.type, is_terminal=True)
        else:
            lhs = self.el(a[2], a[3], 1)
        must_fail = lhs.is_terminal or tuple(lhs.type) != tuple(g.type)
        r, exc = self.call(F.HRGRule, lhs, g)
        if exc is None:
            self.rules.append((r, gi))
            if must_fail:
                self.V('C16', 'invariant', ['I5-rule-typing' if not lhs.is_terminal else 'I5-terminal-lhs', 'HRGRule-constructor-accepted'],
                       f'HRGRule({lhs.name}:{[x.name for x in lhs.type]}, rhs of type {[x.name for x in g.type]})')
        return (None, exc, 'raise' if must_fail else 'ok', False)

    def _model_add_rule(self, m, lhs, gi):
        gm = self.objs[gi]['model']
        labs = [lhs] + [e[1] for e in gm['edges']]
        for i, l in enumerate(labs):
            if M.m_elabel_conflict(m, l) or any(x[0] == l[0] and x != l for x in labs[:i]):
                return 'raise'
        return 'ok'

    def _model_apply_add_rule(self, m, lhs, gi):
        gm = self.objs[gi]['model']
        M.m_reg_elabel(m, lhs)
        for n in gm['nodes']:
            M.m_reg_nlabel(m, n[1])
        for e in gm['edges']:
            M.m_reg_elabel(m, e[1])
        m['rules'].append([lhs, gi])

    def op_add_rule(self, a, before):
        hi = self.pick_obj(a[0], ('HRG', 'FGG'))
        if hi is None or not self.rules:
            return None
        r, gi = self.rules[a[1] % len(self.rules)]
        h = self.objs[hi]
        if tuple(r.lhs.type) != tuple(r.rhs.type):
            return None   # rule already broken by mutation after sharing (reported where it happened)
        lhs = M.s_label(r.lhs)
        expect = self._model_add_rule(h['model'], lhs, gi)
        _, exc = self.call(h['real'].add_rule, r)
        if expect == 'ok' and exc is None:
            self._model_apply_add_rule(h['model'], lhs, gi)
            self.c.inc('probe.rule-shared-rhs')
        return (hi, exc, expect, False)

    def op_new_rule(self, a, before):
        hi = self.pick_obj(a[0], ('HRG', 'FGG'))
        gi = self.pick_obj(a[1], ('Graph', 'FactorGraph'))
        if hi is None or gi is None:
            return None
        h, g = self.objs[hi], self.objs[gi]
        name = M.ELN[a[2] % len(M.ELN)]
        lhs = [name, [n[1] for n in g['model']['ext']], False]
        expect = self._model_add_rule(h['model'], lhs, gi)
        r, exc = self.call(h['real'].new_rule, name, g['real'])
        if exc is None:
            self.rules.append((r, gi))
            if expect == 'ok':
                self._model_apply_add_rule(h['model'], lhs, gi)
        return (hi, exc, expect, False)

    def op_set_start(self, a, before):
        hi = self.pick_obj(a[0], ('HRG', 'FGG'))
        if hi is None:
            return None
        h = self.objs[hi]
        m = h['model']
        mode = a[1] % 3
        if mode == 0:
            name = M.ELN[a[2] % len(M.ELN)]
            arg = name
            ex = [l for l in m['elabels'] if l[0] == name]
            lab = ex[0] if ex else [name, [], False]
        else:
            el = self.el(a[2], a[3], a[4] if mode == 1 else 1)
            arg = el
            lab = M.s_label(el)

        def setstart():
            h['real'].start = arg
        _, exc = self.call(setstart)
        if lab[2]:
            return (hi, exc, 'raise', False)   # terminal start: if accepted the model adopts (open)
        if M.m_elabel_conflict(m, lab):
            return (hi, exc, 'raise', False)
        if exc is None:
            M.m_reg_elabel(m, lab)
            m['start'] = lab
        return (hi, exc, 'ok', False)

    def op_add_node_label(self, a, before):
        oi = self.pick_obj(a[0], ('Graph', 'FactorGraph', 'HRG', 'FGG'))
        if oi is None:
            return None
        o = self.objs[oi]
        nl = self.nl(a[1])
        _, exc = self.call(o['real'].add_node_label, nl)
        if exc is None:
            M.m_reg_nlabel(o['model'], nl.name)
        return (oi, exc, 'ok', False)

    def op_add_edge_label(self, a, before):
        oi = self.pick_obj(a[0], ('Graph', 'FactorGraph', 'HRG', 'FGG'))
        if oi is None:
            return None
        o = self.objs[oi]
        el = self.el(a[1], a[2], a[3])
        lab = M.s_label(el)
        conflict = M.m_elabel_conflict(o['model'], lab)
        _, exc = self.call(o['real'].add_edge_label, el)
        if not conflict and exc is None:
            M.m_reg_elabel(o['model'], lab)
        return (oi, exc, 'raise' if conflict else 'ok', False)

    def op_from_graph(self, a, before):
        F = self.fggs
        gi = self.pick_obj(a[0], ('Graph', 'FactorGraph'))
        if gi is None or len(self.objs) >= 12:
            return None
        g = self.objs[gi]
        fg, exc = self.call(F.FactorGraph.from_graph, g['real'])
        if exc is not None:
            return (gi, exc, 'ok', False)
        s = M.snap(fg)
        m = M.model_from_snapshot(s)
        ni = self.new_obj('FactorGraph', fg, m)
        before.append(s)
        so = M.snap(g['real'])
        if M.eq_key(s) != M.eq_key(so):
            self.V('C16', 'effect', ['from_graph', 'receiver', 'nodes/edges/ext'], 'FactorGraph.from_graph changed nodes, edges or ext')
        if s['domains'] or s['factors']:
            self.V('C16', 'effect', ['from_graph', 'receiver', 'interpretation'], 'from_graph result has domains/factors')
        return (ni, None, 'ok', False)

    def op_from_hrg(self, a, before):
        F = self.fggs
        hi = self.pick_obj(a[0], ('HRG', 'FGG'))
        if hi is None or len(self.objs) >= 12:
            return None
        h = self.objs[hi]
        if h['model']['start'] is None:
            return None
        fg, exc = self.call(F.FGG.from_hrg, h['real'])
        if exc is not None:
            return (hi, exc, 'ok', False)
        s = M.snap(fg)
        m = M.model_from_snapshot(s)
        # rules are shared with the source (same rule objects); model order = all_rules order
        seen = []
        for lhs, _ in h['model']['rules']:
            if lhs not in seen:
                seen.append(lhs)
        m['rules'] = [[l, g] for lhs in seen for (l, g) in h['model']['rules'] if l == lhs]
        ni = self.new_obj('FGG', fg, m)
        before.append(s)
        if M.eq_key(s) != M.eq_key(M.snap(h['real'])):
            self.V('C16', 'effect', ['from_hrg', 'receiver', 'start/rules'], 'FGG.from_hrg changed start or rules')
        return (ni, None, 'ok', False)

    # ================= interpretation-side operations (C20)
    VALS = ['a', 'b', 'c', 0, 1, 2, (0, 1), 'a b', True, None, 1.5, '']

    def op_setup_interp(self, a, before):
        """macro: build an interpreted object (domains and factors bound through the public API) in one step"""
        import torch
        F = self.fggs
        if len(self.objs) >= 9 or len(self.doms) >= 8 or len(self.facs) >= 6:
            return None
        if a[0] % 2 == 0:
            kind, real, m = 'FGG', F.FGG(M.ELN[a[1] % 4]), M.m_hrg('FGG', [M.ELN[a[1] % 4], [], False])
        else:
            kind, real, m = 'FactorGraph', F.FactorGraph(), M.m_graph('FactorGraph')
        oi = self.new_obj(kind, real, m)
        o = self.objs[oi]
        labs = [M.NL[(a[2] + i) % 3] for i in range(1 + a[3] % 2)]
        for i, name in enumerate(labs):
            n = 1 + (a[4] + i) % 3
            vals = [['a', 'b', 'c'], [0, 1, 2], ['x', (1,), None]][(a[5] + i) % 3][:n]
            d = real.new_finite_domain(name, list(vals))
            self.doms.append({'real': d, 'model': ['finite', list(vals)], 'src': None})
            M.m_reg_nlabel(m, name)
            m['domains'].append([name, self.dom_snap(len(self.doms) - 1)])
            o.setdefault('dom_of', {})[name] = len(self.doms) - 1
        rng = Stream(a[6] * 65536 + a[7], 'setup')
        start_name = m['start'][0] if kind == 'FGG' else None
        for j in range(1 + a[6] % 2):
            name = M.ELN[(a[7] + j) % 4]
            if name == start_name or any(k == name for k, _ in m['factors']):
                continue
            typ = [rng.choice(labs) for _ in range(rng.randrange(0, 3))]
            el = F.EdgeLabel(name, [F.NodeLabel(x) for x in typ], is_terminal=True)
            dis = [o['dom_of'][x] for x in typ]
            sizes = [len(self.doms[d]['model'][1]) for d in dis]
            t = torch.tensor([round(rng.random() * 3, 3) for _ in range(int(torch.Size(sizes).numel()))],
                             dtype=torch.get_default_dtype()).reshape(sizes)
            f = F.FiniteFactor([self.doms[d]['real'] for d in dis], t.clone())
            real.add_factor(el, f)
            self.facs.append({'real': f, 'doms': dis, 'dense': t.clone()})
            M.m_reg_elabel(m, M.s_label(el))
            m['factors'].append([name, M.s_factor(f)])
            self.c.inc('probe.binding-accepted')
        before.append(M.snap(real))
        before[-1] = None   # a new object has no 'before'; never compared because the call did not raise
        before[-1] = M.snap(real)
        return (oi, None, 'ok', False)

    def op_mk_domain(self, a, before):
        F = self.fggs
        if len(self.doms) >= 10:
            return None
        if a[0] % 4 == 0:
            n = a[1] % 5
            d = F.RangeDomain(n)
            self.doms.append({'real': d, 'model': ['range', n], 'src': None})
        else:
            n = a[1] % 5
            pool = list(self.VALS)
            Stream(a[2], 'vals').shuffle(pool)
            vals = []
            for v in pool:
                # values must be distinct as dict keys: True == 1, 0 == False
                if all(not (v == w) for w in vals):
                    vals.append(v)
                if len(vals) == n:
                    break
            src = list(vals)
            kind = a[3] % 3
            arg = src if kind == 0 else (tuple(src) if kind == 1 else iter(list(src)))
            if kind == 2:
                # a one-shot iterator is a "collection of values" only loosely; keep to list/tuple for must-succeed
                arg = list(src)
            d = F.FiniteDomain(arg)
            self.doms.append({'real': d, 'model': ['finite', list(vals)], 'src': src if kind == 0 else None})
        return (None, None, 'ok', False)

    def op_mutate_domain_source(self, a, before):
        ds = [d for d in self.doms if d['src'] is not None]
        if not ds:
            return None
        d = ds[a[0] % len(ds)]
        self.c.inc('fault.mutate-after-share.fired')
        if a[1] % 2 == 0:
            d['src'].append('late-%d' % (a[2] % 3))
        elif d['src']:
            d['src'].pop()
        return (None, None, 'ok', False)

    def dom_snap(self, di):
        m = self.doms[di]['model']
        return ['finite', [M.vkey(v) for v in m[1]]] if m[0] == 'finite' else ['range', m[1]]

    def op_add_domain(self, a, before):
        oi = self.pick_obj(a[0], ('FactorGraph', 'FGG'))
        if oi is None or not self.doms:
            return None
        o = self.objs[oi]
        di = a[1] % len(self.doms)
        nl = self.nl(a[2])
        bound = any(k == nl.name for k, _ in o['model']['domains'])
        _, exc = self.call(o['real'].add_domain, nl, self.doms[di]['real'])
        if bound:
            # "already bound" must be rejected; the (harmless) label registration is part of the failed call
            return (oi, exc, 'raise', False) if exc is not None else self._c20_must_raise('add_domain', 'already-bound')
        if exc is None:
            M.m_reg_nlabel(o['model'], nl.name)
            o['model']['domains'].append([nl.name, self.dom_snap(di)])
            o.setdefault('dom_of', {})[nl.name] = di
        return (oi, exc, 'ok', False)

    def _c20_must_raise(self, opname, why):
        self.V('C20', 'binding-accepted', [opname, why], f'{opname} succeeded although {why}')

    def op_new_finite_domain(self, a, before):
        oi = self.pick_obj(a[0], ('FactorGraph', 'FGG'))
        if oi is None or len(self.doms) >= 10:
            return None
        o = self.objs[oi]
        name = M.NL[a[1] % 3]
        n = a[2] % 4
        vals = [['a', 'b', 'c', 'd'], [0, 1, 2, 3], ['x', 1, (2,), None]][a[3] % 3][:n]
        bound = any(k == name for k, _ in o['model']['domains'])
        d, exc = self.call(o['real'].new_finite_domain, name, list(vals))
        if bound:
            if exc is None:
                self._c20_must_raise('new_finite_domain', 'already-bound')
            return (oi, exc, 'raise', False)
        if exc is None:
            self.doms.append({'real': d, 'model': ['finite', list(vals)], 'src': None})
            M.m_reg_nlabel(o['model'], name)
            o['model']['domains'].append([name, self.dom_snap(len(self.doms) - 1)])
            o.setdefault('dom_of', {})[name] = len(self.doms) - 1
        return (oi, exc, 'ok', False)

    def make_weights(self, sizes, a, wrong):
        """returns (argument, dense tensor or None if wrong shape)"""
        import torch
        rng = Stream(a[0] * 65536 + a[1], 'w')
        shape = list(sizes)
        if wrong:
            k = a[2] % 4
            if k == 0 and shape:
                shape = shape[:-1]                      # rank too small, leading dims agree
            elif k == 1:
                shape = shape + [2]                     # rank too large, leading dims agree
            elif k == 2 and shape:
                j = a[3] % len(shape)
                shape[j] = shape[j] + 1                 # one size off
            elif shape and len(shape) >= 2 and shape[0] != shape[1]:
                shape[0], shape[1] = shape[1], shape[0]  # transposed
            else:
                shape = shape + [1]
            if shape == list(sizes):
                shape = shape + [3]
        numel = 1
        for s in shape:
            numel *= s
        vals = [rng.choice([0.0, 1.0, 0.5, 2.0, 0.25, float('inf')]) if rng.random() < 0.5 else round(rng.random() * 4, 3)
                for _ in range(numel)]
        t = torch.tensor(vals, dtype=torch.get_default_dtype()).reshape(shape)
        rep = a[4] % 4
        if rep == 3 and len(shape) >= 2 and 0 not in shape:
            # a PatternedTensor whose virtual axes are a permutation of its physical axes (a transposed / permuted view)
            import sys
            PT = sys.modules['fggs.indices'].PatternedTensor
            perm = Stream(a[5], 'perm').perm(len(shape))
            inv = [perm.index(i) for i in range(len(shape))]
            arg = PT(t.permute(perm).contiguous()).permute(inv)
        elif rep == 0 or rep == 3:
            arg = t.tolist()
            if 0 in shape:
                arg = t   # nested lists cannot express a shape with an empty leading dimension unambiguously
        elif rep == 1:
            arg = t.clone()
        else:
            PT = import_repo().indices.PatternedTensor if hasattr(import_repo(), 'indices') else None
            import sys
            PT = sys.modules['fggs.indices'].PatternedTensor
            arg = PT(t.clone())
        return arg, t, shape

    def op_mk_factor(self, a, before):
        F = self.fggs
        if not self.doms or len(self.facs) >= 8:
            return None
        ar = a[0] % 4
        dis = [a[1 + i] % len(self.doms) for i in range(ar)]
        sizes = [(len(self.doms[d]['model'][1]) if self.doms[d]['model'][0] == 'finite' else self.doms[d]['model'][1]) for d in dis]
        wrong = (a[5] % 4 == 0)
        arg, t, shape = self.make_weights(sizes, a[5:] + a[:5], wrong)
        same_shape = [x for x in self.facs if list(x['dense'].shape) == list(sizes)]
        if not wrong and same_shape and a[6] % 3 == 0:
            # the very same PatternedTensor object as an existing factor's weights (over possibly other domains)
            src = same_shape[a[7] % len(same_shape)]
            arg, t, shape = src['real'].weights, src['dense'].clone(), list(sizes)
            self.c.inc('probe.factor-shares-weights-object')
        f, exc = self.call(F.FiniteFactor, [self.doms[d]['real'] for d in dis], arg)
        really_wrong = list(shape) != list(sizes)
        if really_wrong:
            if exc is None:
                self.V('C20', 'factor-accepts-wrong-shape', ['constructor', f'rank{len(shape)}-vs-{len(sizes)}'],
                       f'FiniteFactor with domain sizes {sizes} accepted weights of shape {shape}')
            return (None, exc, 'raise', False)
        if exc is None:
            self.facs.append({'real': f, 'doms': dis, 'dense': t.clone()})
        return (None, exc, 'ok', False)

    def op_set_weights(self, a, before):
        if not self.facs:
            return None
        fi = a[0] % len(self.facs)
        f = self.facs[fi]
        sizes = [(len(self.doms[d]['model'][1]) if self.doms[d]['model'][0] == 'finite' else self.doms[d]['model'][1]) for d in f['doms']]
        wrong = (a[1] % 3 == 0)
        arg, t, shape = self.make_weights(sizes, a[2:] + a[:2], wrong)

        def setw():
            f['real'].weights = arg
        _, exc = self.call(setw)
        if list(shape) != list(sizes):
            if exc is None:
                self.V('C20', 'factor-accepts-wrong-shape', ['setter', f'rank{len(shape)}-vs-{len(sizes)}'],
                       f'weights setter with domain sizes {sizes} accepted shape {shape}')
            return (None, exc, 'raise', False)
        if exc is None:
            f['dense'] = t.clone()
            self._refresh_factor_models(fi)
        return (None, exc, 'ok', False)

    def op_inplace_weights(self, a, before):
        """mutate a bound factor's weights in place through the object that owns it"""
        cands = [(oi, name) for oi, o in enumerate(self.objs) if 'factors' in o['model'] for name, _ in o['model']['factors']]
        if not cands:
            return None
        oi, name = cands[a[0] % len(cands)]
        fac = self.objs[oi]['real'].factors[name]
        w = fac.weights
        self.c.inc('fault.mutate-after-share.fired')
        w.physical.mul_(2)

        def made_by(fobj):
            for c_, call_ in self.__dict__.get('copy_made_factors', []):
                if c_ is fobj:
                    return call_
            return None
        # whose model changes?  exactly the objects that hold this very factor object
        for o in self.objs:
            if 'factors' in o['model']:
                for ent in o['model']['factors']:
                    if o['real'].factors.get(ent[0]) is fac:
                        ent[1] = M.s_factor(fac)
        for f in self.facs:
            if f['real'] is fac or f['real'].weights is fac.weights:
                f['dense'] = fac.weights.to_dense().clone()     # factors built over the very same weights object share it
        for o in self.objs:
            if 'factors' in o['model']:
                for ent in o['model']['factors']:
                    other = o['real'].factors.get(ent[0])
                    # (factor objects built over the same weights object share it legitimately: caller-built ones among
                    #  themselves, and the factors one copy() call made among themselves -- a deep copy preserves sharing inside
                    #  the copy -- but never a copy's factor with a factor outside that copy)
                    if other is not None and other is not fac and getattr(other, 'weights', None) is fac.weights \
                            and made_by(other) == made_by(fac):
                        ent[1] = M.s_factor(other)
        return (oi, None, 'ok', False)

    def _refresh_factor_models(self, fi):
        fac = self.facs[fi]['real']
        for o in self.objs:
            if 'factors' in o['model']:
                for ent in o['model']['factors']:
                    if o['real'].factors.get(ent[0]) is fac:
                        ent[1] = M.s_factor(fac)

    def _binding_expect(self, o, lab, fdoms):
        """why a binding of a factor with domain models fdoms to label lab must be rejected, or None"""
        m = o['model']
        if not lab[2]:
            return 'nonterminal'
        if M.m_elabel_conflict(m, lab):
            return 'label-name-clash'
        if any(k == lab[0] for k, _ in m['factors']):
            return 'already-bound'
        if len(fdoms) != len(lab[1]):
            return 'arity'
        dm = dict((k, v) for k, v in m['domains'])
        for nlname, fd in zip(lab[1], fdoms):
            if nlname not in dm:
                return 'domain-unmapped'
            if dm[nlname] != fd:
                return 'domain-differs'
        return None

    def op_add_factor(self, a, before):
        oi = self.pick_obj(a[0], ('FactorGraph', 'FGG'))
        if oi is None or not self.facs:
            return None
        o = self.objs[oi]
        fi = a[1] % len(self.facs)
        f = self.facs[fi]
        fdoms = [self.dom_snap(d) for d in f['doms']]
        # choose a label: often one whose type matches the object's bound domains
        mode = a[2] % 4
        if mode == 0:
            el = self.el(a[3], a[4], 0 if a[5] % 5 else 1)
        else:
            dm = dict((k, v) for k, v in o['model']['domains'])
            names = []
            for fd in fdoms:
                c = [k for k, v in dm.items() if v == fd]
                names.append(c[a[6] % len(c)] if c and a[7] % 6 else M.NL[a[6] % 3])
            if mode == 3 and len(names) >= 2:
                # a label type that repeats one node label: every occurrence has to be checked against the factor's domain
                names = [names[0]] * len(names)
            el = self.fggs.EdgeLabel(M.ELN[a[3] % len(M.ELN)], [self.fggs.NodeLabel(x) for x in names],
                                     is_terminal=bool(a[5] % 7), is_nonterminal=not bool(a[5] % 7))
        lab = M.s_label(el)
        why = self._binding_expect(o, lab, fdoms)
        _, exc = self.call(o['real'].add_factor, el, f['real'])
        if why is not None:
            self.c.inc('probe.binding-rejected.' + why)
            if exc is None:
                self._c20_must_raise('add_factor', why)
            return (oi, exc, 'raise', False)
        if exc is None:
            M.m_reg_elabel(o['model'], lab)
            o['model']['factors'].append([lab[0], M.s_factor(f['real'])])
            self.c.inc('probe.binding-accepted')
            self.check_shape(o, el, [len(x[1]) if x[0] == 'finite' else x[1] for x in fdoms])
        return (oi, exc, 'ok', False)

    def check_shape(self, o, el, sizes):
        got, exc = self.call(o['real'].shape, el)
        if exc is not None or tuple(got) != tuple(sizes):
            self.V('C20', 'shape', ['after-binding'], f'shape({el.name}) = {got!r}/{exc!r}, expected {sizes}')
        w = o['real'].factors[el.name].weights
        if tuple(w.shape) != tuple(sizes):
            self.V('C20', 'shape', ['weights-vs-shape'], f'bound weights have shape {tuple(w.shape)}, shape() says {sizes}')

    def op_new_finite_factor(self, a, before):
        oi = self.pick_obj(a[0], ('FactorGraph', 'FGG'))
        if oi is None or len(self.facs) >= 8:
            return None
        o = self.objs[oi]
        m = o['model']
        name = M.ELN[a[1] % len(M.ELN)]
        labs = [l for l in m['elabels'] if l[0] == name]
        dm = dict((k, v) for k, v in m['domains'])
        if not labs:
            _, exc = self.call(o['real'].new_finite_factor, name, 1.0)
            if exc is None:
                self._c20_must_raise('new_finite_factor', 'unknown-label-name')
            return (oi, exc, 'raise', False)
        lab = labs[0]
        if any(nl not in dm for nl in lab[1]):
            _, exc = self.call(o['real'].new_finite_factor, name, 1.0)
            if exc is None:
                self._c20_must_raise('new_finite_factor', 'domain-unmapped')
            return (oi, exc, 'raise', False)
        sizes = [len(dm[nl][1]) if dm[nl][0] == 'finite' else dm[nl][1] for nl in lab[1]]
        wrong = (a[2] % 4 == 0)
        arg, t, shape = self.make_weights(sizes, a[3:] + a[:3], wrong)
        fdoms = [dm[nl] for nl in lab[1]]
        why = self._binding_expect(o, lab, fdoms)
        if list(shape) != list(sizes):
            why = why or 'wrong-shape'
        f, exc = self.call(o['real'].new_finite_factor, name, arg)
        if why is not None:
            self.c.inc('probe.binding-rejected.' + why)
            if exc is None:
                self._c20_must_raise('new_finite_factor', why)
            return (oi, exc, 'raise', False)
        if exc is None:
            dom_of = o.get('dom_of', {})
            dis = [dom_of.get(nl) for nl in lab[1]]
            if all(d is not None for d in dis):
                self.facs.append({'real': f, 'doms': dis, 'dense': t.clone()})
            m['factors'].append([name, M.s_factor(f)])
            self.c.inc('probe.binding-accepted')
            self.check_shape(o, self.objs[oi]['real'].get_edge_label(name), sizes)
        return (oi, exc, 'ok', False)

    def op_shape(self, a, before):
        oi = self.pick_obj(a[0], ('FactorGraph', 'FGG'))
        if oi is None:
            return None
        o = self.objs[oi]
        dm = dict((k, v) for k, v in o['model']['domains'])
        el = self.el(a[1], a[2], a[3])
        names = [nl.name for nl in el.type]
        mode = a[4] % 3
        arg = el if mode == 0 else (list(el.type) if mode == 1 else [self.fggs.Node(nl) for nl in el.type])
        got, exc = self.call(o['real'].shape, arg)
        if all(n in dm for n in names):
            sizes = tuple(len(dm[n][1]) if dm[n][0] == 'finite' else dm[n][1] for n in names)
            if exc is not None or tuple(got) != sizes:
                self.V('C20', 'shape', ['query', ['EdgeLabel', 'NodeLabels', 'Nodes'][mode]], f'shape -> {got!r}/{exc!r}, expected {sizes}')
            return (oi, None, 'ok', False)
        return (oi, exc, 'raise', False)


def execute(case):
    with Env(case['env']) as env:
        mach = Machine(case, env)
        viol = []
        try:
            mach.run()
        except Violation as v:
            viol.append(v.to_json())
        outs = mach.outcomes
        n_raise = sum(1 for o in outs if o[1].startswith('raise'))
        n_ok = sum(1 for o in outs if o[1] == 'ok')
        if case['prop'] == 'C20':
            nontrivial = env.c.get('probe.binding-accepted', 0) >= 1 and n_raise >= 1
        else:
            nontrivial = len(outs) >= 5 and n_raise >= 1 and n_ok >= 1
        import hashlib
        shape = hashlib.sha256(json.dumps(outs).encode() + mach.log.digest().encode()).hexdigest()[:16]
        return {'violations': viol, 'counters': dict(env.c), 'digest': mach.log.digest(), 'shape': shape,
                'steps': len(outs), 'nontrivial': nontrivial}
