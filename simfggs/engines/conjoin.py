"""CONJOIN engine (C17): two grammars over shared node/edge ids, each realised under its own
construction order and id mode (rule pairing zips nonterminal edges sorted by id, and name
uniquification depends on registration order); oracle = reference conjunction built from the
statement + derivation counts per depth."""
import copy
import json

from ..rng import Stream
from ..core import Violation, Log, import_repo
from ..env import Env
from ..shrink import list_reductions

RULE = {'C17': 'seeded pairs of HRGs over shared skeletons (several rules per skeleton, skeletons in one grammar only, clashing names such as '
               'X+"Y,Z" vs "X,Y"+Z, a terminal called <X,Y>, conflicting terminals as must-fail), each under its own construction order and id mode. '
               'non-trivial: >=2 conjoinable rule pairs and >=1 rule with >=2 nonterminal edges or a name clash; distinct = distinct case digests'}
DISTINCT = 'distinct (skeletons, rule tables of both grammars, construction orders) digests'
SIMULATED = ['independent construction orders of the two grammars', 'id allocator (implicit node ids shared by object identity)', 'label registration order']
ORACLES = ['reference conjunction from the statement (rule pairs with equal nodes, externals and nonterminal edge id/attachment sets)',
           'derivation counts per pair of nonterminals and depth <= 4', 'input snapshots']
ASSUMPTIONS = ['most runs tag every rule with a unique nullary terminal so that each conjoined rule identifies its pair of source rules']

NT1 = ['S', 'X', 'X,Y', 'X,Y,Z', 'P']
NT2 = ['S', 'Y,Z,W', 'Z,W', 'W', 'Q']
NL = ['A', 'B']


def plan(prop, tier):
    if tier == 'quick':
        return {'runs': 4000, 'cap': 30.0, 'det_runs': 40, 'legs': [{'hashseed': h} for h in (0, 1, 2, 3)]}
    return {'cap': 60.0, 'budget_s': 600, 'legs': [{'hashseed': h} for h in (0, 1, 2, 3)]}


def generate(prop, seed, tier):
    g = Stream(seed, 'gen')
    typ_pool = [[], ['A'], ['A', 'A'], ['A', 'B']]
    common_type = g.choice(typ_pool[:3])          # most nonterminals share a type so that names can clash and rules can pair
    if g.random() < 0.4:
        n1, n2 = NT1[1:4], NT2[1:4]         # every pair is naturally called <X,Y,Z,W>
    else:
        n1 = g.sample(NT1[1:], g.randrange(1, 4))
        n2 = g.sample(NT2[1:], g.randrange(1, 4))
    nts1 = {'S': []}
    nts2 = {'S': []}
    for n in n1:
        nts1[n] = common_type if g.random() < 0.8 else g.choice(typ_pool)
    for n in n2:
        nts2[n] = common_type if g.random() < 0.8 else g.choice(typ_pool)
    # skeletons
    skels = []
    for si in range(g.randrange(2, 5)):
        ext_t = g.choice([[], common_type, common_type])
        nodes = [{'label': l, 'id': None} for l in ext_t]
        for _ in range(g.randrange(0, 3)):
            nodes.append({'label': g.choice(NL), 'id': None})
        idmode = g.choice(['explicit', 'explicit', 'implicit', 'mixed'])
        for i, v in enumerate(nodes):
            if idmode == 'explicit' or (idmode == 'mixed' and g.random() < 0.5):
                v['id'] = 'n%s%d' % (g.choice(['', 'z', 'a']), (si * 5 + i * 3) % 17) + '.' + str(i)
        slots = []
        for k in range(g.randrange(0, 4)):
            t = g.choice([common_type, common_type, []])
            att = []
            ok = True
            for l in t:
                cands = [i for i, v in enumerate(nodes) if v['label'] == l]
                if not cands:
                    ok = False
                    break
                att.append(g.choice(cands))
            if ok:
                # ids whose string order differs from creation order
                slots.append({'id': 'e%s%d' % (g.choice(['', 'b', 'z', '9']), (7 - k) % 10) + '.' + str(k), 'att': att, 'type': t})
        skels.append({'nodes': nodes, 'ext': list(range(len(ext_t))), 'ext_type': ext_t, 'slots': slots})
    # near-miss variants of all-explicit skeletons: same ids, but externals in another order, an edge attached elsewhere,
    # one more node, or a node with another label -- rules over a skeleton and over its variant are NOT conjoinable
    for sk in list(skels):
        if any(v['id'] is None for v in sk['nodes']) or g.random() > 0.4:
            continue
        v = copy.deepcopy(sk)
        kind = g.choice(['ext-order', 'ext-order', 'attach', 'extra-node', 'node-label'])
        if kind == 'ext-order' and len(v['ext']) >= 2 and v['ext_type'][0] == v['ext_type'][1]:
            v['ext'] = [v['ext'][1], v['ext'][0]] + v['ext'][2:]
        elif kind == 'attach' and any(len(x['att']) >= 1 for x in v['slots']):
            x = g.choice([x for x in v['slots'] if x['att']])
            k = g.randrange(len(x['att']))
            alt = [i for i, n in enumerate(v['nodes']) if n['label'] == v['nodes'][x['att'][k]]['label'] and i != x['att'][k]]
            if not alt:
                continue
            x['att'][k] = g.choice(alt)
        elif kind == 'extra-node':
            v['nodes'].append({'label': g.choice(NL), 'id': 'extra.%d' % len(v['nodes'])})
        elif kind == 'node-label' and len(v['nodes']) > len(v['ext']):
            i = g.randrange(len(v['ext']), len(v['nodes']))
            if any(i in x['att'] for x in v['slots']):
                continue
            v['nodes'][i]['label'] = 'B' if v['nodes'][i]['label'] == 'A' else 'A'
        else:
            continue
        skels.append(v)

    def mk_rules(nts, tag):
        rules = []
        for si, sk in enumerate(skels):
            if g.random() < 0.2:
                continue            # skeleton present in the other grammar only
            for _ in range(g.randrange(1, 3)):
                lhss = [n for n, t in nts.items() if t == sk['ext_type']]
                if not lhss:
                    continue
                labs = []
                ok = True
                for sl in sk['slots']:
                    c = [n for n, t in nts.items() if t == sl['type']]
                    if not c:
                        ok = False
                        break
                    labs.append(g.choice(c))
                if not ok:
                    continue
                terms = []
                for _ in range(g.randrange(0, 2)):
                    # terminal names: shared ones, names that look like paired nonterminals, and names that are
                    # *nonterminals of the other grammar* (legal: only terminal/terminal clashes are conflicts)
                    other_nts = [n for n in (nts2 if tag == 'a' else nts1) if n not in nts and n != 'S']
                    pool = ['t0', 't1', '<X,Y>', '<S,S>'] + other_nts
                    if g.random() < 0.35:
                        # labels that look like uniquified pair names, with gaps in the numbering
                        pool = ['<X,Y,Z,W>_2', '<X,Y,Z,W>_1', '<X,Y,Z,W>_3', '<X,Y,Z,W>', '<S,S>_1', '<X,W>_2']
                    terms.append({'label': g.choice(pool) if g.random() < 0.6 else tag + 't', 'att': []})
                rules.append({'lhs': g.choice(lhss), 'skel': si, 'labels': labs, 'terms': terms,
                              'edge_order': g.perm(len(sk['slots']) + len(terms)), 'node_order': g.perm(len(sk['nodes']))})
        g.shuffle(rules)
        return rules
    r1, r2 = mk_rules(nts1, 'a'), mk_rules(nts2, 'b')
    return {'engine': 'conjoin', 'prop': prop, 'seed': seed, 'nts1': nts1, 'nts2': nts2, 'skels': skels, 'rules1': r1, 'rules2': r2,
            'signatures': g.random() < 0.85, 'conflict': g.random() < 0.12, 'share_objects': g.random() < 0.5,
            'alloc': g.choice(['order', 'seq', 'reuse']), 'prereg1': g.random() < 0.3, 'prereg2': g.random() < 0.3,
            # history: conjoin, remove a terminal edge from a right-hand side of an input grammar, conjoin the same objects again
            'again': {'which': g.randrange(2), 'rule': g.randrange(64), 'edge': g.randrange(64)} if g.random() < 0.3 else None,
            # the second grammar's start symbol may be another of its nonterminals (possibly of another type than the first
            # grammar's start: then no pair of derivations has the same shape and the conjunction derives nothing)
            'start2': (g.choice(sorted(nts2)) if g.random() < 0.15 else 'S')}


def reducers(case):
    yield from list_reductions(case, ['rules1'])
    yield from list_reductions(case, ['rules2'])
    if case.get('again'):
        c = copy.deepcopy(case)
        c['again'] = None
        yield c
    for key in ('conflict', 'prereg1', 'prereg2', 'share_objects'):
        if case.get(key):
            c = copy.deepcopy(case)
            c[key] = False
            yield c
    for rk in ('rules1', 'rules2'):
        for i, r in enumerate(case[rk]):
            if r['terms']:
                c = copy.deepcopy(case)
                c[rk][i]['terms'] = []
                c[rk][i]['edge_order'] = list(range(len(case['skels'][r['skel']]['slots'])))
                yield c
            ident = list(range(len(r['edge_order'])))
            if r['edge_order'] != ident:
                c = copy.deepcopy(case)
                c[rk][i]['edge_order'] = ident
                yield c


def describe(case):
    return {'nts1': case['nts1'], 'nts2': case['nts2'],
            'skels': [[[(v['label'], v['id']) for v in s['nodes']], s['ext'], [(x['id'], x['att']) for x in s['slots']]] for s in case['skels']],
            'rules1': [[r['lhs'], r['skel'], r['labels'], r['edge_order']] for r in case['rules1']],
            'rules2': [[r['lhs'], r['skel'], r['labels'], r['edge_order']] for r in case['rules2']],
            'signatures': case['signatures'], 'conflict': case['conflict']}


def V(clause, feats, detail):
    raise Violation('C17', clause, feats, detail)


def snap_hrg(h):
    return json.dumps([h.start.name, [(el.name, [l.name for l in el.type], el.is_terminal) for el in h.edge_labels()],
                       [nl.name for nl in h.node_labels()],
                       [[r.lhs.name, [(n.id, n.label.name) for n in r.rhs.nodes()], [(e.id, e.label.name, [v.id for v in e.nodes]) for e in r.rhs.edges()],
                         [v.id for v in r.rhs.ext]] for r in h.all_rules()]], default=str)


def build_pair(F, case):
    """returns (hrg1, hrg2, info) where info[k] = list of (rule object, abstract rule) per grammar"""
    NLo = {l: F.NodeLabel(l) for l in NL}
    shared_nodes = {}

    def node(si, i, which):
        v = case['skels'][si]['nodes'][i]
        if v['id'] is not None:
            return F.Node(NLo[v['label']], id=v['id'])       # equal by value
        key = (si, i)
        if key not in shared_nodes:
            shared_nodes[key] = F.Node(NLo[v['label']])          # implicit id: shared by object identity
        return shared_nodes[key]
    out = []
    for which, (nts, rules, tag) in enumerate(((case['nts1'], case['rules1'], 'a'), (case['nts2'], case['rules2'], 'b'))):
        labs = {n: F.EdgeLabel(n, [NLo[l] for l in t], is_nonterminal=True) for n, t in nts.items()}
        h = F.HRG(labs[case.get('start2', 'S') if which == 1 else 'S'])
        if case['prereg%d' % (which + 1)]:
            for n in sorted(nts, reverse=True):
                h.add_edge_label(labs[n])
        info = []
        for ri, r in enumerate(rules):
            sk = case['skels'][r['skel']]
            rhs = F.Graph()
            nodes = {}
            for i in r['node_order']:
                nodes[i] = node(r['skel'], i, which)
                rhs.add_node(nodes[i])
            edges = []
            for k, sl in enumerate(sk['slots']):
                edges.append(('nt', k, F.Edge(labs[r['labels'][k]], [nodes[i] for i in sl['att']], id=sl['id'])))
            for k, t in enumerate(r['terms']):
                tl = F.EdgeLabel(t['label'], [], is_terminal=True)
                edges.append(('t', k, F.Edge(tl, [], id='%s-t%d.%d' % (tag, ri, k))))
            order = [x for x in r['edge_order'] if x < len(edges)] + [x for x in range(len(edges)) if x not in r['edge_order']]
            for x in order:
                rhs.add_edge(edges[x][2])
            if case['signatures']:
                sig = F.EdgeLabel('sig_%s%d' % (tag, ri), [], is_terminal=True)
                rhs.add_edge(F.Edge(sig, [], id='%s-sig%d' % (tag, ri)))
            rhs.ext = [nodes[i] for i in sk['ext']]
            rule = F.HRGRule(labs[r['lhs']], rhs)
            h.add_rule(rule)
            info.append((rule, r))
        for n in nts:
            h.add_edge_label(labs[n])
        out.append((h, info, labs))
    if case['conflict']:
        # a genuine terminal-label conflict: same name, different type
        out[0][0].add_edge_label(F.EdgeLabel('clash', [], is_terminal=True))
        out[1][0].add_edge_label(F.EdgeLabel('clash', [NLo['A']], is_terminal=True))
    return out


def skel_key(s):
    """identity of a skeleton as the library can see it; None if some node has an implicit id (then only the very
    same node objects are equal, and those are shared within one skeleton only)"""
    if any(v['id'] is None for v in s['nodes']):
        return None
    nodes = sorted((v['id'], v['label']) for v in s['nodes'])
    ext = [s['nodes'][i]['id'] for i in s['ext']]
    slots = sorted((x['id'], tuple(s['nodes'][i]['id'] for i in x['att'])) for x in s['slots'])
    return (nodes, ext, slots)


def ref_conjoinable(case, r1, r2):
    """from the statement: same nodes, same external nodes, same nonterminal edges by id and attachment"""
    if r1['skel'] == r2['skel']:
        return True
    k1, k2 = skel_key(case['skels'][r1['skel']]), skel_key(case['skels'][r2['skel']])
    return k1 is not None and k1 == k2


def slot_pairs(case, r1, r2):
    """[(edge id, label1, label2)] for the shared nonterminal edges of a conjoinable pair"""
    s1, s2 = case['skels'][r1['skel']], case['skels'][r2['skel']]
    l2 = {x['id']: r2['labels'][k] for k, x in enumerate(s2['slots'])}
    return [(x['id'], r1['labels'][k], l2[x['id']]) for k, x in enumerate(s1['slots'])]


def execute(case):
    F = import_repo()
    log = Log(keep=False)
    viol = []
    counters = {}
    nontrivial = False
    try:
        with Env({'alloc': {'mode': case['alloc'], 'seed': case['seed']}}) as env:
            c = env.c
            (h1, info1, labs1), (h2, info2, labs2) = build_pair(F, case)
            s1, s2 = snap_hrg(h1), snap_hrg(h2)
            try:
                res = F.conjoin_hrgs(h1, h2)
                exc = None
            except ValueError as ex:
                exc = ex
            except Exception as ex:
                if case['conflict']:
                    V('terminal-conflict', ['other-exception', type(ex).__name__], str(ex))
                V('conjoin-raised', [type(ex).__name__], f'conjoin_hrgs raised {type(ex).__name__}: {ex}')
            if snap_hrg(h1) != s1 or snap_hrg(h2) != s2:
                V('inputs-mutated', [], 'conjoin_hrgs changed one of its arguments')
            if case['conflict']:
                c.inc('fault.must-fail-call.fired')
                if exc is None:
                    V('terminal-conflict', ['accepted'], 'two different terminal labels with the same name were accepted')
                counters = dict(c)
                log.add('conflict')
                raise StopIteration
            if exc is not None:
                V('conjoin-raised', ['ValueError'], f'conjoin_hrgs raised ValueError without a terminal conflict: {exc}')
            def verify(res):
                # reference: conjoinable pairs
                pairs = [(i, j) for i, (_, r1) in enumerate(info1) for j, (_, r2) in enumerate(info2) if ref_conjoinable(case, r1, r2)]
                c.inc('pairs.conjoinable', len(pairs))
                c.inc('pairs.total', len(info1) * len(info2))
                rules = res.all_rules()
                if len(rules) != len(pairs):
                    V('rule-count', ['more' if len(rules) > len(pairs) else 'fewer'], f'{len(rules)} conjoined rules, {len(pairs)} conjoinable pairs of rules')
                existing = {el.name for el in h1.edge_labels()} | {el.name for el in h2.edge_labels()}
                name_of = {}      # (l1,l2) -> result label
                pair_of = {}      # result label name -> (l1,l2)

                def bind(pair, lab, where):
                    if not lab.is_nonterminal:
                        V('pair-label', ['terminal'], f'{where}: paired label {lab.name} is terminal')
                    if pair in name_of and name_of[pair] != lab:
                        V('pair-name', ['pair-has-two-names'], f'{pair} is called {name_of[pair].name} and {lab.name}')
                    if lab.name in pair_of and pair_of[lab.name] != pair:
                        V('pair-name', ['name-not-unique'], f'{lab.name} stands for {pair_of[lab.name]} and {pair} ({where})')
                    name_of[pair] = lab
                    pair_of[lab.name] = pair
                    t1 = case['nts1'][pair[0]]
                    if [l.name for l in lab.type] != t1 and t1 == case['nts2'][pair[1]]:
                        V('pair-label', ['type'], f'{lab.name} has type {[l.name for l in lab.type]}, {pair[0]} has {t1}')
                bind(('S', case.get('start2', 'S')), res.start, 'start')
                if case['signatures']:
                    bysig = {}
                    for r in rules:
                        sg = sorted(e.label.name for e in r.rhs.edges() if e.label.name.startswith('sig_'))
                        if len(sg) != 2:
                            V('rule-terminals', ['signature'], f'conjoined rule carries terminals {sg} (expected the terminal edges of exactly one rule of each grammar)')
                        key = (int(sg[0][5:]), int(sg[1][5:]))
                        if key in bysig:
                            V('rule-count', ['duplicate-pair'], f'rule pair {key} was conjoined twice')
                        bysig[key] = r
                    if set(bysig) != set(pairs):
                        V('rule-pairs', ['wrong-pairs'], f'conjoined pairs {sorted(bysig)} expected {sorted(pairs)}')
                    for (i, j), r in bysig.items():
                        rule1, a1 = info1[i]
                        rule2, a2 = info2[j]
                        bind((a1['lhs'], a2['lhs']), r.lhs, f'lhs of pair {(i, j)}')
                        if set(r.rhs.nodes()) != set(rule1.rhs.nodes()) or len(list(r.rhs.nodes())) != len(list(rule1.rhs.nodes())):
                            V('rule-nodes', [], f'pair {(i, j)}: nodes differ from the source rules')
                        if tuple(r.rhs.ext) != tuple(rule1.rhs.ext):
                            V('rule-externals', [], f'pair {(i, j)}: externals differ')
                        nte = {e.id: e for e in r.rhs.edges() if e.label.is_nonterminal}
                        want = slot_pairs(case, a1, a2)
                        if len(nte) != len(want) or set(nte) != {w[0] for w in want} or len([e for e in r.rhs.edges() if e.label.is_nonterminal]) != len(want):
                            V('rule-nt-edges', ['count-or-ids'], f'pair {(i, j)}: nonterminal edges {sorted(nte)} expected {[w[0] for w in want]}')
                        src = {e.id: e for e in rule1.rhs.edges()}
                        for eid, l1, l2 in want:
                            e = nte[eid]
                            if tuple(e.nodes) != tuple(src[eid].nodes):
                                V('rule-nt-edges', ['attachment'], f'pair {(i, j)} edge {eid}: attachment changed')
                            bind((l1, l2), e.label, f'edge {eid} of pair {(i, j)}')
                        ts = sorted((e.id, e.label.name) for e in r.rhs.edges() if e.label.is_terminal)
                        wt = sorted((e.id, e.label.name) for rr in (rule1, rule2) for e in rr.rhs.edges() if e.label.is_terminal)
                        if ts != wt:
                            V('rule-terminals', ['not-both'], f'pair {(i, j)}: terminal edges {ts} expected {wt}')
                    c.inc('rules.checked', len(bysig))
                    if any(len(case['skels'][info1[i][1]['skel']]['slots']) >= 2 for i, j in pairs):
                        c.inc('probe.pair-with>=2-nonterminal-edges')
                for nm in pair_of:
                    if nm in existing:
                        V('pair-name', ['collides-with-existing-label'], f'paired nonterminal {nm} has the name of a label of an input grammar')
                natural = {}
                for p in name_of:
                    natural.setdefault('<%s,%s>' % p, []).append(p)
                if any(len(v) >= 2 for v in natural.values()):
                    c.inc('probe.name-clash')
                if any(len(v) >= 3 for v in natural.values()):
                    c.inc('probe.name-clash-3way')
                # derivation counts
                memo = {}

                def cnt_ref(l1, l2, d):
                    if d == 0:
                        return 0
                    k = (l1, l2, d)
                    if k not in memo:
                        tot = 0
                        for i, j in pairs:
                            a1, a2 = info1[i][1], info2[j][1]
                            if a1['lhs'] != l1 or a2['lhs'] != l2:
                                continue
                            p = 1
                            for _, x1, x2 in slot_pairs(case, a1, a2):
                                p *= cnt_ref(x1, x2, d - 1)
                                if p == 0:
                                    break
                            tot += p
                        memo[k] = tot
                    return memo[k]
                memo2 = {}

                def cnt_res(lab, d):
                    if d == 0:
                        return 0
                    k = (lab, d)
                    if k not in memo2:
                        tot = 0
                        for r in res.rules(lab):
                            p = 1
                            for e in r.rhs.edges():
                                if e.label.is_nonterminal:
                                    p *= cnt_res(e.label, d - 1)
                                    if p == 0:
                                        break
                            tot += p
                        memo2[k] = tot
                    return memo2[k]
                for pair, lab in name_of.items():
                    for d in (1, 2, 3, 4):
                        a, b = cnt_ref(pair[0], pair[1], d), cnt_res(lab, d)
                        if a != b:
                            V('derivation-count', ['depth%d' % d], f'{pair} alias {lab.name}: {b} derivations of depth <= {d}, {a} conjoinable pairs of derivations')
                        if a > 0:
                            c.inc('probe.derivations>0')
                c.inc('counts.compared', len(name_of))
                return pairs, rules, pair_of
            pairs, rules, pair_of = verify(res)
            ag = case.get('again')
            if ag:
                h_, info_ = (h1, info1) if ag['which'] == 0 else (h2, info2)
                cands = [(rule, e) for rule, _ in info_ for e in rule.rhs.edges() if e.label.is_terminal and not e.label.name.startswith('sig_')]
                if cands:
                    rule, e = cands[(ag['rule'] * 7 + ag['edge']) % len(cands)]
                    rule.rhs.remove_edge(e)
                    c.inc('hist.remove_edge-then-conjoin-again')
                    try:
                        res2 = F.conjoin_hrgs(h1, h2)
                    except Exception as ex:
                        V('conjoin-raised', ['again', type(ex).__name__], f'second conjoin_hrgs of the same grammars (after removing a terminal edge) raised {type(ex).__name__}: {ex}')
                    verify(res2)
            nontrivial = len(pairs) >= 2
            counters = dict(c)
            log.add('ok', len(rules), sorted(pair_of))
    except StopIteration:
        nontrivial = True
    except Violation as v:
        viol.append(v.to_json())
    import hashlib
    shape = hashlib.sha256(json.dumps({k: case[k] for k in ('nts1', 'nts2', 'skels', 'rules1', 'rules2', 'conflict')}, sort_keys=True).encode()).hexdigest()[:16]
    return {'violations': viol, 'counters': counters, 'digest': log.digest(), 'shape': shape, 'steps': 1, 'nontrivial': nontrivial}
