"""SCC engine (C19): Tarjan's visiting order is the insertion order of the adjacency mapping,
i.e. the construction history of the grammar.  One digraph / grammar is presented under
several insertion orders; the solver's own event log is checked for dependency order, also
across a history of queries interleaved with grammar changes."""
import copy
import json
import sys

import torch

from ..rng import Stream
from ..core import Violation, Log, import_repo
from ..env import Env, recorded_warnings
from ..shrink import list_reductions
from ..gen import grammars as G
from .. import build

RULE = {'C19': 'seeded digraphs (<=7 vertices, self-loops, isolated vertices; vertices ints/strings/tuples) each under >=4 insertion orders; '
               'seeded grammars under several construction orders for nonterminal_graph; histories sum_products / grammar change / sum_products '
               'with the solver event log checked for dependency order. non-trivial: graph has a cycle of >=2 vertices or >=3 components; '
               'distinct = distinct (edge set, orders) digests'}
DISTINCT = 'distinct (digraph, set of insertion orders) pairs and distinct grammar histories'
SIMULATED = ['insertion order of vertices and successors (construction history)', 'id allocator', 'history of queries and grammar changes']
ORACLES = ['reachability-closure SCCs', 'edge-order invariant over the returned list', 'solver event log (apply_to_patterned_tensors monitor)']
ASSUMPTIONS = ['graphs are given as dict-of-dict adjacency mappings containing every vertex as a key (the documented input form)']


def plan(prop, tier):
    if tier == 'quick':
        return {'runs': 4000, 'cap': 30.0, 'det_runs': 40, 'legs': [{'hashseed': h} for h in (0, 1, 2, 3)]}
    return {'cap': 60.0, 'budget_s': 600, 'legs': [{'hashseed': h} for h in (0, 1, 2, 3)]}


def generate(prop, seed, tier):
    g = Stream(seed, 'gen')
    n = g.randrange(1, 8 if tier == 'quick' else 10)
    p = g.choice([0.1, 0.2, 0.3, 0.5])
    edges = [[u, v] for u in range(n) for v in range(n) if g.random() < (p if u != v else p / 2)]
    if g.random() < 0.4 and n >= 3:
        # plant a cycle and an edge into its non-root member from a later vertex
        k = g.randrange(2, n)
        cyc = g.sample(range(n), k)
        for a, b in zip(cyc, cyc[1:] + cyc[:1]):
            if [a, b] not in edges:
                edges.append([a, b])
    deep = None
    if g.random() < 0.04:
        # a deep digraph: one long path (optionally closed to a ring, with a few chords), presented in path order so that
        # the depth-first search really descends that far (well inside the interpreter's recursion limit: the library's
        # scc is recursive and handles ~980 on this tree)
        m = g.randrange(200, 701)
        de = [[i, i + 1] for i in range(m - 1)]
        kind = g.choice(['path', 'ring', 'chords', 'backpath'])
        if kind == 'ring':
            de.append([m - 1, 0])
        elif kind == 'chords':
            for _ in range(g.randrange(1, 6)):
                a_, b_ = g.randrange(m), g.randrange(m)
                de.append([max(a_, b_), min(a_, b_)])
        elif kind == 'backpath':
            de = [[i + 1, i] for i in range(m - 1)]
        deep = {'n': m, 'edges': de, 'start': g.choice([0, 0, m - 1, g.randrange(m)])}
    orders = []
    for _ in range(g.randrange(3, 7)):
        orders.append({'v': g.perm(n), 'succ_seed': g.randrange(1 << 30)})
    naming = g.choice(['int', 'str', 'tuple', 'mixed'])
    spec = G.gen_spec(g, max_nts=3, recursion=g.choice(['any', 'any', 'linear', 'none']), weights='small', shapes=True,
                      max_nodes=3, max_edges=3)
    # a 4th nonterminal that nobody refers to and that has no rules
    if g.random() < 0.3:
        spec['nts']['U'] = {'type': []}
    pres = [build.random_presentation(spec, g, allow_rename=False, allow_domperm=False, via=('api',)) for _ in range(2)]
    hist = {'first_rules': sorted(g.sample(range(len(spec['rules'])), g.randrange(0, len(spec['rules']) + 1))),
            'new_start': g.random() < 0.4, 'ops': [g.choice(['add_rule', 'set_start', 'query', 'edit_rhs', 'remove_rhs_edge', 'label_without_edge', 'share_rhs']) for _ in range(g.randrange(1, 6))],
            'choices': [g.randrange(1 << 16) for _ in range(8)]}
    return {'engine': 'sccsim', 'prop': prop, 'seed': seed, 'n': n, 'edges': edges, 'orders': orders, 'naming': naming,
            'spec': spec, 'pres': pres, 'hist': hist, 'deep': deep}


def reducers(case):
    if case.get('deep'):
        c = copy.deepcopy(case)
        c['deep'] = None
        yield c
        if case['deep']['n'] > 8:
            # halve the deep graph (keep edges among the first half)
            c = copy.deepcopy(case)
            h = case['deep']['n'] // 2
            c['deep'] = {'n': h, 'edges': [e for e in case['deep']['edges'] if e[0] < h and e[1] < h], 'start': min(case['deep']['start'], h - 1)}
            yield c
    yield from list_reductions(case, ['edges'])
    yield from list_reductions(case, ['orders'], min_len=1)
    yield from list_reductions(case, ['pres'])
    yield from list_reductions(case, ['hist', 'ops'])
    yield from list_reductions(case, ['spec', 'rules'], min_len=1)
    if case['n'] > 1:
        used = {x for e in case['edges'] for x in e}
        for v in range(case['n'] - 1, -1, -1):
            if v not in used:
                c = copy.deepcopy(case)
                c['n'] -= 1
                c['edges'] = [[a - (a > v), b - (b > v)] for a, b in c['edges']]
                for o in c['orders']:
                    o['v'] = [x - (x > v) for x in o['v'] if x != v]
                yield c
                break


def describe(case):
    return {'n': case['n'], 'edges': case['edges'], 'orders': [o['v'] for o in case['orders']], 'naming': case['naming'],
            'hist': case['hist'], 'rules': [[r['lhs'], [e['label'] for e in r['edges']]] for r in case['spec']['rules']]}


def V(clause, feats, detail):
    raise Violation('C19', clause, feats, detail)


def ref_sccs(n, edges):
    reach = [[u == v for v in range(n)] for u in range(n)]
    for u, v in edges:
        reach[u][v] = True
    for k in range(n):
        for i in range(n):
            if reach[i][k]:
                for j in range(n):
                    if reach[k][j]:
                        reach[i][j] = True
    comp = {}
    for u in range(n):
        comp[u] = frozenset(v for v in range(n) if reach[u][v] and reach[v][u])
    return comp


def check_scc_result(comps, names, n, edges, comp_ref, feats):
    inv = {names[i]: i for i in range(n)}
    seen = []
    for c in comps:
        for v in c:
            if v not in inv:
                V('scc-partition', feats + ['unknown-vertex'], f'{v!r}')
            seen.append(inv[v])
    if sorted(seen) != list(range(n)):
        missing = sorted(set(range(n)) - set(seen))
        dup = sorted({x for x in seen if seen.count(x) > 1})
        V('scc-partition', feats + ['not-a-partition'], f'missing {missing} duplicated {dup}; n={n} edges={edges} comps={[[inv[v] for v in c] for c in comps]}')
    pos = {}
    for ci, c in enumerate(comps):
        got = frozenset(inv[v] for v in c)
        for v in got:
            pos[v] = ci
            if comp_ref[v] != got:
                V('scc-components', feats, f'component {sorted(got)} returned, reference component of {v} is {sorted(comp_ref[v])}; edges={edges}')
    for u, v in edges:
        if pos[u] < pos[v]:
            V('scc-order', feats, f'edge {u}->{v} goes from component #{pos[u]} into the later component #{pos[v]}; edges={edges}')


def execute(case):
    F = import_repo()
    U = sys.modules['fggs.utils']
    SP = sys.modules['fggs.sum_product']
    log = Log(keep=False)
    viol = []
    n, edges = case['n'], [tuple(e) for e in case['edges']]
    comp_ref = ref_sccs(n, edges)
    nm = case['naming']
    names = []
    for i in range(n):
        k = nm if nm != 'mixed' else ['int', 'str', 'tuple'][i % 3]
        names.append(i if k == 'int' else ('v%d' % ((i * 7) % 11) + '_' + str(i) if k == 'str' else (i % 2, 'x', i)))
    counters = {}
    sigs = set()
    try:
        with Env({'alloc': {'mode': 'order', 'seed': case['seed']}}) as env:
            c = env.c
            for o in case['orders']:
                g = {}
                for v in o['v']:
                    g[names[v]] = {}
                sr = Stream(o['succ_seed'], 'succ')
                es = list(edges)
                sr.shuffle(es)
                for u, v in es:
                    g[names[u]][names[v]] = None
                snapshot = {k: list(d) for k, d in g.items()}
                comps = U.scc(g)
                c.inc('scc.calls')
                check_scc_result(comps, names, n, edges, comp_ref, [])
                sigs.add(json.dumps([[sorted(str(x) for x in cc)] for cc in comps]))
                log.add('scc', [[names.index(v) for v in cc] for cc in comps])
            c.inc('probe.distinct-orderings-of-result', len(sigs))
            if case.get('deep'):
                import networkx as nx
                dp = case['deep']
                m, de = dp['n'], [tuple(e) for e in dp['edges']]
                dg = nx.DiGraph()
                dg.add_nodes_from(range(m))
                dg.add_edges_from(de)
                dref = {}
                for comp_ in nx.strongly_connected_components(dg):
                    fs = frozenset(comp_)
                    for v in fs:
                        dref[v] = fs
                vorder = list(range(dp['start'], m)) + list(range(dp['start']))
                gd = {v: {} for v in vorder}
                for u, v in de:
                    gd[u][v] = None
                comps = U.scc(gd)
                c.inc('scc.calls')
                c.inc('probe.deep-graph')
                check_scc_result(comps, list(range(m)), m, de if m <= 12 else [], dref, ['deep'])
                pos = {v: ci for ci, cc in enumerate(comps) for v in cc}
                for u, v in de:
                    if pos[u] < pos[v]:
                        V('scc-order', ['deep'], f'edge {u}->{v} goes from component #{pos[u]} into the later component #{pos[v]} (path of {m} vertices)')
                log.add('deep', m, len(comps))
            if any(len(s) >= 2 for s in comp_ref.values()):
                c.inc('probe.nontrivial-cycle')
            # ---- nonterminal_graph under construction orders
            spec = case['spec']
            for pres in case['pres']:
                B = build.build(spec, pres, interp=True)
                check_ntgraph(F, U, B.fgg, spec, B, c)
                check_solver(F, SP, B.fgg, spec, B, c, log, 'fresh')
            # ---- history: partial grammar, query, change, query
            run_history(F, U, SP, case, c, log)
            counters = dict(c)
    except Violation as v:
        viol.append(v.to_json())
    import hashlib
    shape = hashlib.sha256(json.dumps([case['n'], sorted(case['edges']), [o['v'] for o in case['orders']], case['hist']]).encode()).hexdigest()[:16]
    big = any(len(s) >= 2 for s in comp_ref.values()) or len(set(comp_ref.values())) >= 3
    return {'violations': viol, 'counters': counters, 'digest': log.digest(), 'shape': shape,
            'steps': len(case['orders']) + len(case['pres']) + len(case['hist']['ops']), 'nontrivial': big}


def check_ntgraph(F, U, fgg, spec_rules_view, B, c, rules=None):
    g = U.nonterminal_graph(fgg)
    c.inc('nonterminal_graph.calls')
    nts = list(fgg.nonterminals())
    if set(g.keys()) != set(nts) or len(g) != len(nts):
        V('ntgraph-vertices', ['missing' if set(nts) - set(g.keys()) else 'extra'],
          f'nonterminals {[x.name for x in nts]} but graph has {[x.name for x in g.keys()]}')
    for x in nts:
        want = {e.label for r in fgg.rules(x) for e in r.rhs.edges() if e.label.is_nonterminal}
        if set(g[x].keys() if hasattr(g[x], 'keys') else g[x]) != want:
            V('ntgraph-edges', [], f'{x.name}: successors {[y.name for y in g[x]]} expected {[y.name for y in want]}')
    return g


def check_solver(F, SP, fgg, spec, B, c, log, tag):
    """every nonterminal's sum-product is computed after those it depends on and every nonterminal receives a value"""
    events = []
    orig = SP.SumProduct.apply_to_patterned_tensors

    def mon(fgg_, opts, in_labels, out_labels, *in_values):
        events.append((list(in_labels), list(out_labels)))
        return orig(fgg_, opts, in_labels, out_labels, *in_values)
    SP.SumProduct.apply_to_patterned_tensors = staticmethod(mon)
    try:
        with recorded_warnings():
            try:
                res = F.sum_products(fgg, method='fixed-point', kmax=30, tol=1e-6)
            except Exception as ex:
                V('solver-order', ['raised', type(ex).__name__, tag], f'sum_products raised {type(ex).__name__}: {ex}')
    finally:
        SP.SumProduct.apply_to_patterned_tensors = staticmethod(orig)
    c.inc('sum_products.calls')
    done = set()
    for ins, outs in events:
        for el in ins:
            if el.is_nonterminal and el not in done:
                V('solver-order', ['used-before-computed', tag], f'component {[o.name for o in outs]} read {el.name} before it was computed')
        outs_set = set(outs)
        for x in outs:
            for r in fgg.rules(x):
                for e in r.rhs.edges():
                    if e.label.is_nonterminal and e.label not in outs_set and e.label not in done:
                        V('solver-order', ['dependency-not-ready', tag], f'{x.name} depends on {e.label.name}, which was not computed yet')
        done |= outs_set
    for x in fgg.nonterminals():
        if x not in res:
            V('solver-values', ['nonterminal-without-value', tag], f'{x.name} received no sum-product')
        if tuple(res[x].shape) != tuple(fgg.shape(x)):
            V('solver-values', ['shape', tag], f'{x.name}: shape {tuple(res[x].shape)}')
    log.add('solve', tag, [[o.name for o in outs] for _, outs in events])
    return res


def run_history(F, U, SP, case, c, log):
    spec = case['spec']
    hist = case['hist']
    first = [i for i in hist['first_rules'] if i < len(spec['rules'])]
    sub = copy.deepcopy(spec)
    sub['rules'] = [spec['rules'][i] for i in first]
    pres = build.identity_presentation(sub)
    B = build.build(sub, pres, interp=True)
    fgg = B.fgg
    rest = [i for i in range(len(spec['rules'])) if i not in first]
    check_solver(F, SP, fgg, sub, B, c, log, 'hist0')
    ch = hist['choices']
    k = 0
    for op in hist['ops']:
        k += 1
        if op == 'add_rule' and rest:
            ri = rest.pop(ch[k % 8] % len(rest))
            r = spec['rules'][ri]
            rhs = F.Graph()
            nodes = [F.Node(B.nls[v['label']], id=v.get('id')) for v in r['nodes']]
            for v in nodes:
                rhs.add_node(v)
            for e in r['edges']:
                rhs.add_edge(F.Edge(B.labels[e['label']], [nodes[i] for i in e['att']], id=e.get('id')))
            rhs.ext = [nodes[i] for i in r['ext']]
            fgg.add_rule(F.HRGRule(B.labels[r['lhs']], rhs))
            c.inc('hist.add_rule')
        elif op == 'set_start':
            nts = list(fgg.nonterminals())
            if hist['new_start'] and not fgg.has_edge_label_name('Fresh'):
                fgg.start = F.EdgeLabel('Fresh', [], is_nonterminal=True)
                c.inc('hist.set_start-new-nonterminal')
            else:
                fgg.start = nts[ch[k % 8] % len(nts)]
                c.inc('hist.set_start')
        elif op == 'edit_rhs':
            # add a nonterminal edge to an existing right-hand side (label already known to the grammar, same type)
            rules = fgg.all_rules()
            if rules:
                r = rules[ch[k % 8] % len(rules)]
                cands = []
                for nt in fgg.nonterminals():
                    byl = {}
                    ok = True
                    att = []
                    for nl in nt.type:
                        vs = [v for v in r.rhs.nodes() if v.label == nl]
                        if not vs:
                            ok = False
                            break
                        att.append(vs[ch[(k + len(att)) % 8] % len(vs)])
                    if ok:
                        cands.append((nt, att))
                if cands:
                    nt, att = cands[ch[(k + 3) % 8] % len(cands)]
                    r.rhs.add_edge(F.Edge(nt, att))
                    c.inc('hist.edit_rhs')
        elif op == 'remove_rhs_edge':
            # a right-hand side loses a nonterminal edge (its label stays in the graph's own label table)
            cands = [(r, e) for r in fgg.all_rules() for e in r.rhs.edges() if e.label.is_nonterminal]
            if cands:
                r, e = cands[ch[k % 8] % len(cands)]
                r.rhs.remove_edge(e)
                c.inc('hist.remove_rhs_edge')
        elif op == 'share_rhs':
            # one Graph object serves as the right-hand side of rules of two different nonterminals (legal: same type)
            cands = [(r, nt) for r in fgg.all_rules() for nt in fgg.nonterminals()
                     if nt != r.lhs and nt.type == r.lhs.type and any(e.label.is_nonterminal for e in r.rhs.edges())]
            if cands:
                r, nt = cands[ch[k % 8] % len(cands)]
                fgg.add_rule(F.HRGRule(nt, r.rhs))
                c.inc('hist.share_rhs')
        elif op == 'label_without_edge':
            rules = fgg.all_rules()
            nts = list(fgg.nonterminals())
            if rules and nts:
                rules[ch[k % 8] % len(rules)].rhs.add_edge_label(nts[ch[(k + 1) % 8] % len(nts)])
                c.inc('hist.label_without_edge')
        else:
            c.inc('hist.query')
        check_ntgraph(F, U, fgg, None, B, c)
        check_solver(F, SP, fgg, None, B, c, log, 'hist-after-' + op)
