"""QUERYHIST engine (C18): histories of library queries applied to the same (shared) objects -- grammars derived
from each other by copy/factorize (sharing factor and domain dicts and weight tensors), weights that are views of
one larger tensor, with or without requires_grad -- including deferred backward passes, injected linalg failures
and budget cuts.  Around every operation a deep snapshot of every live object must be unchanged; a repeated query
must give a bit-identical result whatever ran in between; in-place operations on a clone never change the source."""
import copy
import json
import sys

import numpy as np
import torch

from ..rng import Stream
from ..core import Violation, Discard, Log, import_repo
from ..env import Env, recorded_warnings
from ..shrink import list_reductions
from ..gen import grammars as G
from ..ref import tensor_ref as TR
from .. import build
from .present import semiring_obj

RULE = {'C18': 'seeded histories (<=14 operations) of sum_product/sum_products/viterbi/factorize_*/conjoin_hrgs/JSON writers/deferred backward/'
               'clone-then-mutate over 1-3 grammars that share dicts and weight storage; non-trivial: >=5 operations executed of which >=1 repeats '
               'an earlier query; distinct = distinct (grammar, history) digests'}
DISTINCT = 'distinct (grammar, operation history) digests'
SIMULATED = ['history of queries on shared objects', 'deferred backward passes', 'torch.linalg.solve failure', 'iteration budget cuts', 'id allocator / PhysicalAxis hash order']
ORACLES = ['deep bitwise snapshots (structure, dict order, storage bytes, strides, requires_grad, .grad, axis identities) before/after every call',
           'bit-identical results for repeated queries', 'late backward == immediate backward on a fresh copy']
ASSUMPTIONS = ['viterbi is only queried on grammars inside the rule shapes it handles on this tree (see C12)']

OPS = ['sum_product', 'sum_product', 'sum_products', 'viterbi', 'factorize_fgg', 'factorize_hrg', 'factorize_rule', 'conjoin', 'to_json',
       'backward', 'backward', 'clone_mutate', 'multi_clone_mutate', 'repeat', 'repeat', 'repeat', 'derive_fgg']


def plan(prop, tier):
    if tier == 'quick':
        return {'runs': 1200, 'cap': 90.0, 'det_runs': 15, 'legs': [{'hashseed': h} for h in (0, 1, 2, 3)]}
    return {'cap': 180.0, 'budget_s': 900, 'legs': [{'hashseed': h} for h in (0, 1, 2, 3)]}


def generate(prop, seed, tier):
    g = Stream(seed, 'gen')
    vit = g.random() < 0.5
    rec = g.choice(['none', 'linear', 'any'])
    spec = G.gen_spec(g, recursion=rec, weights=g.choice(['small', 'pos', 'zeros']), max_nodes=4, max_edges=3, max_dom=2 if rec == 'any' else 3,
                      explicit_ids=g.choice(['mixed', 'none', 'all']), min_dom=2 if vit else 1, repeat_ext=not vit, shapes=True)
    if vit and g.random() < 0.3:
        # mutually recursive nonterminals whose best derivation runs through other members of the component: the arg-max
        # needs several rounds, so a starved viterbi query really differs from a full one
        spec = G.ring_chord_spec(g, 'prob', vec=True, min_sz=2)
    if vit:
        G.attach_edgeless(spec, g, 'pos')
        G.ensure_internal_node(spec, g, 'pos')
    if g.random() < 0.3:
        G.add_closure_nt(spec, g, 'small')
    if not vit and g.random() < 0.12:
        spec = G.ring_chord_spec(g, 'small')
    if not vit and g.random() < 0.3:
        G.add_onehot_terminals(spec, g)
    g2 = Stream(seed, 'gen-dead')
    if not vit and g2.random() < 0.08:
        # a ring of scalar (arity-0) nonterminals, some without a base rule, one of which gets a dead rule (two one-hot
        # indicators on one node that fail to unify): the first fixed-point iterate of that member is einsum's 0-dim
        # zero result, which the next iterate is copied into -- whatever that zero result aliases (a memoised semiring
        # constant, a caller's tensor) is overwritten, visible to later queries with the same caller-owned semiring object
        spec = G.ring_chord_spec(g2, 'small', vec=False, min_sz=2)
        G.add_onehot_terminals(spec, g2)
    ops = []
    for i in range(g.randrange(4, 15)):
        ops.append({'uid': i, 'op': g.choice(OPS + (['viterbi'] * 3 if vit else [])), 'a': [g.randrange(1 << 16) for _ in range(6)]})
    return {'engine': 'queryhist', 'prop': prop, 'seed': seed, 'spec': spec, 'vit': vit, 'ops': ops,
            'weights': {'requires_grad': g.random() < 0.6, 'views': g.random() < 0.4, 'dtype': 'float64'},
            'env': {'alloc': {'mode': g.choice(['order', 'reuse']), 'seed': seed}, 'axhash': seed, 'dtype': 'float64'}}


def reducers(case):
    yield from list_reductions(case, ['ops'])
    for k in ('requires_grad', 'views'):
        if case['weights'].get(k):
            c = copy.deepcopy(case)
            c['weights'][k] = False
            yield c
    spec = case['spec']
    for ri in range(len(spec['rules']) - 1, -1, -1):
        if len(spec['rules']) > 1:
            c = copy.deepcopy(case)
            del c['spec']['rules'][ri]
            yield c
    for i, op in enumerate(case['ops']):
        for j, v in enumerate(op['a']):
            if v > 7:
                c = copy.deepcopy(case)
                c['ops'][i]['a'][j] = v % 8
                yield c


def describe(case):
    return {'rules': [[r['lhs'], [n['label'] for n in r['nodes']], [(e['label'], e['att']) for e in r['edges']], r['ext']] for r in case['spec']['rules']],
            'weights': case['weights'], 'ops': [[o['op']] + o['a'][:3] for o in case['ops']]}


def V(clause, feats, detail):
    raise Violation('C18', clause, feats, detail)


# ---------------------------------------------------------------- deep snapshots

def t_snap(t):
    if t is None:
        return None
    return (tuple(t.shape), t.stride(), t.storage_offset(), str(t.dtype), bool(t.requires_grad),
            bytes(t.detach().untyped_storage()) if t.untyped_storage().nbytes() <= 1 << 16 else t.detach().clone().numpy().tobytes(),
            t.untyped_storage().data_ptr())


def pt_snap(w):
    g = w.physical.grad if w.physical.is_leaf else None
    return (t_snap(w.physical), tuple(id(k) for k in w.paxes), repr([type(e).__name__ for e in w.vaxes]), tuple(w.shape), repr(w.default),
            None if g is None else t_snap(g))


def graph_snap(g):
    return (tuple((n.id, n.label.name, n.persist_id, id(n)) for n in g.nodes()),
            tuple((e.id, e.label.name, tuple(v.id for v in e.nodes), e.persist_id, id(e)) for e in g.edges()),
            tuple(v.id for v in g.ext), tuple(nl.name for nl in g.node_labels()), tuple(el.name for el in g.edge_labels()))


def fgg_snap(h):
    s = {'start': (h.start.name, tuple(l.name for l in h.start.type)),
         'nlabels': tuple(nl.name for nl in h.node_labels()),
         'elabels': tuple((el.name, tuple(l.name for l in el.type), el.is_terminal) for el in h.edge_labels()),
         'rules': tuple((r.lhs.name, id(r), id(r.rhs), graph_snap(r.rhs)) for r in h.all_rules()),
         'rules_keys': tuple((nt.name, len(h.rules(nt))) for nt in h.nonterminals())}
    if hasattr(h, 'domains'):
        s['domains'] = (id(h.domains), tuple((k, id(d), type(d).__name__, tuple(getattr(d, 'values', ())) if hasattr(d, 'values') else d.size()) for k, d in h.domains.items()))
        s['factors'] = (id(h.factors), tuple((k, id(f), tuple(id(d) for d in f.domains), id(f.weights), pt_snap(f.weights)) for k, f in h.factors.items()))
    return s


def diff_keys(a, b):
    return [k for k in a if a[k] != b.get(k)]


class Machine:
    def __init__(self, F, case, env):
        self.F = F
        self.case = case
        self.c = env.c
        self.log = Log(keep=False)
        self.fggs = []       # {'g': FGG, 'B': Built or None, 'twin': deep copy for ==, 'kind'}
        self.results = {}    # query key -> result digest object
        self.pending = []    # differentiable results for a later backward
        self.nrep = 0
        self.nops = 0

    def semiring(self, sem, choice):
        """semiring objects are caller-owned and normally live across many queries: one pooled object per kind, reused by most
        queries (a fresh one now and then)"""
        pool = self.__dict__.setdefault('sems', {})
        if sem not in pool or choice % 4 == 0:
            S = semiring_obj(sem, torch.float64)
            if sem not in pool:
                pool[sem] = S
                # the first thing the caller does with the object is a small query of its own (a vector-valued, linearly
                # recursive probe grammar): the same query is asked again at the end of the history and must answer the same
                self.__dict__.setdefault('probe0', {})[sem] = self.probe(sem, S)
                self.sem_before = self.sem_snap()
            else:
                return S
        self.c.inc('probe.semiring-object-reused')
        return pool[sem]

    PROBE = {'domains': {'A': {'kind': 'range', 'size': 3}},
             'terms': {'pa': {'type': ['A'], 'weights': [0.3, 0.0, 0.2]}, 'pb': {'type': [], 'weights': 0.5},
                       'pc': {'type': ['A', 'A'], 'weights': [[0.1, 0.0, 0.0], [0.2, 0.1, 0.0], [0.0, 0.0, 0.3]]}},
             'nts': {'PS': {'type': []}, 'PX': {'type': ['A']}}, 'start': 'PS',
             'rules': [{'lhs': 'PS', 'nodes': [{'label': 'A', 'id': None}], 'ext': [], 'edges': [{'label': 'PX', 'att': [0], 'id': None}]},
                       {'lhs': 'PX', 'nodes': [{'label': 'A', 'id': None}], 'ext': [0], 'edges': [{'label': 'pa', 'att': [0], 'id': None}]},
                       {'lhs': 'PX', 'nodes': [{'label': 'A', 'id': None}], 'ext': [0],
                        'edges': [{'label': 'PX', 'att': [0], 'id': None}, {'label': 'pb', 'att': [], 'id': None}]},
                       {'lhs': 'PX', 'nodes': [{'label': 'A', 'id': None}, {'label': 'A', 'id': None}], 'ext': [0],
                        'edges': [{'label': 'pc', 'att': [0, 1], 'id': None}, {'label': 'PX', 'att': [1], 'id': None}]}]}

    def probe(self, sem, S):
        from .present import lift
        pg = self.__dict__.setdefault('probe_fgg', {})
        if sem not in pg:
            pg[sem] = build.build(copy.deepcopy(self.PROBE), None, interp=True, weights_transform=lift(sem), dtype=torch.float64).fgg
        out = []
        for method in ('newton', 'linear', 'fixed-point'):
            r = self.F.sum_products(pg[sem], semiring=S, method=method, tol=1e-12, kmax=1000)
            out.append(tuple((el.name, dense_bytes(t)) for el, t in r.items() if el.is_nonterminal))
        return tuple(out)

    def probe_again(self):
        for sem, S in self.__dict__.get('sems', {}).items():
            now = self.probe(sem, S)
            self.c.inc('probe.semiring-probe-repeated')
            if now != self.probe0[sem]:
                V('not-reproducible', ['semiring-object', sem], f'a fixed probe query (vector-valued linear recursion) asked with the caller\'s {sem} semiring object '
                  f'before the history and again after it gives different results, although the probe grammar and the arguments are the same objects')

    def sem_snap(self):
        out = {}
        for name, S in self.__dict__.get('sems', {}).items():
            for k_, v_ in vars(S).items():
                if isinstance(v_, torch.Tensor):
                    out[(name, k_)] = (tuple(v_.shape), str(v_.dtype), v_.detach().cpu().numpy().tobytes())
                elif v_ is None:
                    out[(name, k_)] = None
        return out

    def snaps(self):
        return [fgg_snap(x['g']) for x in self.fggs]

    def check_unchanged(self, before, opname, allow_grad=False):
        after = self.snaps()
        for i, (b, a) in enumerate(zip(before, after)):
            if b != a:
                keys = diff_keys(b, a)
                if allow_grad and keys == ['factors']:
                    # only .grad fields may differ after an explicit backward
                    fb = [(x[0], x[1], x[2], x[3], x[4][:5]) for x in b['factors'][1]]
                    fa = [(x[0], x[1], x[2], x[3], x[4][:5]) for x in a['factors'][1]]
                    if fb == fa and b['factors'][0] == a['factors'][0]:
                        continue
                what = ','.join(keys)
                detail = ''
                if 'factors' in keys:
                    for xb, xa in zip(b['factors'][1], a['factors'][1]):
                        if xb != xa:
                            detail = f' factor {xb[0]}: weights storage/strides/grad/axes changed'
                            if xb[4][0][5] != xa[4][0][5]:
                                what += ',weight-bytes'
                            break
                V('input-mutated', [opname, what], f'{opname} changed grammar #{i} ({self.fggs[i]["kind"]}) in {keys}.{detail}')
        # the semiring objects the caller keeps across queries are inputs too: a tensor they hold (a cached constant, say)
        # must not change value once it exists (a value that appears where there was none is a lazily filled cache)
        sem_after = self.sem_snap()
        for k_, v_ in getattr(self, 'sem_before', {}).items():
            if v_ is not None and sem_after.get(k_) is not None and sem_after[k_] != v_:
                self.sem_before = sem_after
                V('input-mutated', [opname, 'semiring-object'], f'{opname} changed the tensor held in attribute {k_[1]!r} of the caller\'s {k_[0]} semiring object')
        self.sem_before = sem_after
        if not torch.is_grad_enabled():
            torch.set_grad_enabled(True)
            V('global-state-changed', [opname, 'grad-mode'], f'{opname} left autograd recording disabled for the rest of the process')
        for i, x in enumerate(self.fggs):
            if x.get('twin') is not None and not (x['g'] == x['twin']):
                V('input-mutated', [opname, 'not==pre-query-copy'], f'after {opname} grammar #{i} is no longer == to the copy taken before any query')
        return after

    def record(self, key, value):
        """repeated query => identical result"""
        if key in self.results:
            old = self.results[key]
            self.nrep += 1
            self.c.inc('probe.repeated-query')
            if not same_result(old, value):
                V('not-reproducible', [key[0]], f'{key}: first result {show(old)}, now {show(value)}')
        else:
            self.results[key] = value

    # ---- setup
    def setup(self):
        F, case = self.F, self.case
        spec = case['spec']
        wcfg = dict(case['weights'])
        if any(t.get('pattern') is not None for t in spec['terms'].values()):
            wcfg['views'] = False       # patterned weights keep their own physical storage
        big = {}

        def wt(n, w):
            w = w.clone()
            if wcfg.get('views'):
                # the weight is a view into a larger tensor owned by the caller
                holder = torch.zeros((2,) + tuple(w.shape), dtype=w.dtype)
                holder[1] = w
                if wcfg.get('requires_grad'):
                    holder.requires_grad_()
                big[n] = holder
                w = holder[1]
            return w
        B = build.build(spec, None, interp=True, weights_transform=wt, dtype=torch.float64,
                        requires_grad=bool(wcfg.get('requires_grad')) and not wcfg.get('views'))
        self.big = big
        self.big_names = {B.labels[n].name for n in big}
        self.B = B
        # the caller-owned leaf tensor behind every factor (the PatternedTensor may hold a squeezed view of it)
        self.leaf = {}
        for n, w in B.weights.items():
            self.leaf[B.labels[n].name] = big[n] if n in big else (w.physical if hasattr(w, 'physical') else w)
        try:
            twin = copy.deepcopy(B.fgg) if not wcfg.get('requires_grad') or not wcfg.get('views') else None
        except RuntimeError:
            twin = None
        self.fggs.append({'g': B.fgg, 'kind': 'base', 'twin': twin})

    # ---- operations
    def pick(self, c):
        prim = [x for x in self.fggs if not x.get('sibling')]
        return prim[c % len(prim)]

    def op_derive_fgg(self, a):
        if len([x for x in self.fggs if not x.get('sibling')]) >= 3:
            return None
        src = self.pick(a[0])
        k = a[1] % 3
        if k == 0:
            try:
                g = src['g'].copy()
            except RuntimeError:
                return None     # torch cannot deepcopy non-leaf weight tensors; not the library's concern
            kind = 'copy'
        elif k == 1:
            g = self.F.factorize_fgg(src['g'], method=['min_fill', 'acb', 'quickbb'][a[2] % 3])
            kind = 'factorized'
        else:
            g = self.F.FGG.from_hrg(src['g'])
            g.domains = src['g'].domains
            g.factors = src['g'].factors
            kind = 'from_hrg-shared-dicts'
        self.fggs.append({'g': g, 'kind': kind, 'twin': None})
        return ('derive', kind)

    def cfg_of(self, a):
        sem = ['real', 'real', 'log', 'viterbi', 'bool'][a[1] % 5]
        method = ['fixed-point', 'newton', 'linear'][a[2] % 3]
        kmax = [1000, 1000, 3, 0][a[3] % 4]
        return sem, method, kmax

    def weights_for(self, x, sem):
        """queries in other semirings need other weights: a per-semiring sibling grammar sharing structure but with its own factors"""
        key = 'sem_' + sem
        if key not in x:
            if sem == 'real':
                x[key] = x['g']
            else:
                g2 = self.F.FGG.from_hrg(x['g'])
                for nl, d in x['g'].domains.items():
                    g2.add_domain(self.F.NodeLabel(nl), d)
                for name, fac in x['g'].factors.items():
                    if not g2.has_edge_label_name(name):
                        continue
                    w = fac.weights.to_dense().detach()
                    w2 = torch.log(w) if sem in ('log', 'viterbi') else (w > 0)
                    g2.add_factor(g2.get_edge_label(name), self.F.FiniteFactor(fac.domains, w2.clone()))
                x[key] = g2
                self.fggs.append({'g': g2, 'kind': x['kind'] + '/' + sem, 'twin': None, 'sibling': True})
        return x[key]

    def op_sum_product(self, a, all_=False):
        x = self.pick(a[0])
        sem, method, kmax = self.cfg_of(a)
        g = self.weights_for(x, sem) if len(self.fggs) < 8 or ('sem_' + sem) in x else x['g']
        if g is x['g']:
            sem = 'real'
        S = self.semiring(sem, a[-1])
        key = ('sum_products' if all_ else 'sum_product', id(g), sem, method, kmax)
        before = self.snaps()
        try:
            with recorded_warnings() as ws:
                if all_:
                    r = self.F.sum_products(g, semiring=S, method=method, kmax=kmax, tol=1e-9)
                    val = ('dict', tuple((el.name, dense_bytes(t)) for el, t in r.items() if el.is_nonterminal))
                else:
                    z = self.F.sum_product(g, semiring=S, method=method, kmax=kmax, tol=1e-9)
                    val = ('tensor', dense_bytes(z), bool(z.physical.requires_grad))
                    zd = z.to_dense()
                    if zd.requires_grad and sem in ('real', 'log'):
                        self.pending.append({'z': zd, 'zp': z, 'g': g, 'sem': sem, 'method': method, 'kmax': kmax})
            val = val + (tuple(sorted(str(w.message)[:40] for w in ws)),)
        except Exception as ex:
            val = ('exc', type(ex).__name__)
        self.check_unchanged(before, 'sum_products' if all_ else 'sum_product')
        self.record(key, val)
        if kmax < 1000:
            self.c.inc('fault.budget-cut.configured')
        return (key[0], sem, method, kmax, val[0])

    def op_sum_products(self, a):
        return self.op_sum_product(a, all_=True)

    def op_viterbi(self, a):
        if not self.case.get('vit'):
            return None
        x = self.pick(a[0])
        g = self.weights_for(x, 'viterbi') if len(self.fggs) < 8 or 'sem_viterbi' in x else None
        if g is None:
            return None
        shape = g.shape(g.start)
        asst = tuple(a[1 + i] % s for i, s in enumerate(shape))
        if shape and a[5] % 5 == 0:
            # a query that must fail (start assignment out of range): it may raise, it must not leave anything behind
            asst = (shape[0] + a[4] % 2,) + asst[1:]
            self.c.inc('fault.must-fail-call.fired')
        # iteration budget of the query: the default, or one that is likely to run out (an earlier starved query on the same
        # object must not influence a later one)
        kmax = [None, None, 1000, 2, 1][a[3] % 5]
        opts = {} if kmax is None else {'kmax': kmax}

        def weight_of(fg, assignment):
            w = 0.0
            for e in fg.edges():
                wt = fg.factors[e.label.name].weights.to_dense()
                idx = tuple(assignment[v] for v in e.nodes)
                w += float(wt[idx]) if idx else float(wt)
            return w
        before = self.snaps()
        wgt = None
        try:
            with recorded_warnings() as ws:
                d = self.F.viterbi(g, asst, **opts)
                fg, assignment = d.derive()
            val = ('deriv', deriv_digest(d))
            wgt = weight_of(fg, assignment)
            starved = any('maximum iteration' in str(w.message) for w in ws)
        except Exception as ex:
            val = ('exc', type(ex).__name__)
        self.check_unchanged(before, 'viterbi')
        self.record(('viterbi', id(g), asst, kmax), val)
        if kmax is not None and kmax < 1000:
            self.c.inc('fault.budget-cut.configured')
        if kmax is not None and kmax < 1000:
            # ... followed by the query with the default budget on the same object
            opts = {}
            wgt = None
            try:
                with recorded_warnings():
                    d = self.F.viterbi(g, asst)
                    fg, assignment = d.derive()
                val = ('deriv', deriv_digest(d))
                wgt = weight_of(fg, assignment)
            except Exception as ex:
                val = ('exc', type(ex).__name__)
            self.check_unchanged(before, 'viterbi')
            self.record(('viterbi', id(g), asst, None), val)
            self.c.inc('probe.viterbi-after-starved-viterbi')
        if wgt is not None and (a[4] % 2 == 0 or (kmax is not None and kmax < 1000)):
            # the same query on a copy that has never been queried: same weight (tied derivations may differ)
            try:
                with recorded_warnings():
                    d2 = self.F.viterbi(g.copy(), asst, **opts)
                    fg2, as2 = d2.derive()
                w2 = weight_of(fg2, as2)
            except Exception as ex:
                V('not-reproducible', ['viterbi', 'fresh-copy-raised', type(ex).__name__], f'viterbi{asst} succeeded on the queried grammar but raised {type(ex).__name__} on a fresh copy of it')
            self.c.inc('probe.viterbi-vs-fresh-copy')
            if abs(w2 - wgt) > 1e-9 * max(1.0, abs(w2)):
                V('not-reproducible', ['viterbi', 'fresh-copy'], f'viterbi{asst} ({opts}): derivation of weight {wgt} on the grammar object queried before, {w2} on a fresh copy of it')
        return ('viterbi', val[0])

    def op_factorize_fgg(self, a, hrg=False):
        x = self.pick(a[0])
        m = ['min_fill', 'acb', 'quickbb'][a[1] % 3]
        before = self.snaps()
        try:
            r = (self.F.factorize_hrg if hrg else self.F.factorize_fgg)(x['g'], method=m)
            val = ('hrg', hrg_digest(r))
        except Exception as ex:
            val = ('exc', type(ex).__name__)
        self.check_unchanged(before, 'factorize_hrg' if hrg else 'factorize_fgg')
        self.record(('factorize_hrg' if hrg else 'factorize_fgg', id(x['g']), m), val)
        return ('factorize', m, val[0])

    def op_factorize_hrg(self, a):
        return self.op_factorize_fgg(a, hrg=True)

    def op_factorize_rule(self, a):
        x = self.pick(a[0])
        rules = x['g'].all_rules()
        if not rules:
            return None
        ri = a[1] % len(rules)
        r = rules[ri]
        m = ['min_fill', 'acb', 'quickbb'][a[2] % 3]
        with_labels = a[3] % 2 == 0
        before = self.snaps()
        try:
            if with_labels:
                labels = set(x['g'].edge_labels())
                lb = set(labels)
                news = self.F.factorize_rule(r, method=m, labels=labels)
                if not lb <= labels:
                    V('labels-arg', ['shrunk'], 'factorize_rule removed entries from the labels set')
            else:
                news = self.F.factorize_rule(r, method=m)
            val = ('rules', tuple(sorted((n.lhs.name, tuple(sorted(str(v.id) for v in n.rhs.nodes())),
                                           tuple(sorted((e.label.name, tuple(str(v.id) for v in e.nodes)) for e in n.rhs.edges()))) for n in news)))
        except Violation:
            raise
        except Exception as ex:
            val = ('exc', type(ex).__name__)
        self.check_unchanged(before, 'factorize_rule')
        self.record(('factorize_rule', id(x['g']), ri, m, with_labels), val)
        return ('factorize_rule', m, with_labels, val[0])

    def op_conjoin(self, a):
        x, y = self.pick(a[0]), self.pick(a[1])
        before = self.snaps()
        try:
            r = self.F.conjoin_hrgs(x['g'], y['g'])
            val = ('hrg', hrg_digest(r))
        except Exception as ex:
            val = ('exc', type(ex).__name__)
        self.check_unchanged(before, 'conjoin_hrgs')
        self.record(('conjoin', id(x['g']), id(y['g'])), val)
        return ('conjoin', val[0])

    def op_to_json(self, a):
        x = self.pick(a[0])
        before = self.snaps()
        try:
            j = self.F.fgg_to_json(x['g']) if a[1] % 2 == 0 else self.F.hrg_to_json(x['g'])
            val = ('json', json.dumps(j, sort_keys=True))
        except Exception as ex:
            val = ('exc', type(ex).__name__)
        self.check_unchanged(before, 'to_json')
        self.record(('to_json', id(x['g']), a[1] % 2), val)
        return ('to_json', val[0])

    def op_backward(self, a):
        """deferred backward of an earlier differentiable result: equals the gradient of an immediate forward+backward
        on a fresh copy; only .grad fields of the leaves may change"""
        if not self.pending:
            return None
        p = self.pending[a[0] % len(self.pending)]
        g = p['g']
        leaves = []
        for name, fac in g.factors.items():
            if name in self.leaf and fac.weights.physical.untyped_storage().data_ptr() == self.leaf[name].untyped_storage().data_ptr():
                leaves.append((name, self.leaf[name]))
        grads0 = {n: (None if l.grad is None else l.grad.clone()) for n, l in leaves}
        cot = torch.ones_like(p['z'])
        mask = torch.isfinite(p['z'].detach())
        before = self.snaps()
        go = torch.where(mask, torch.ones_like(p['z']), torch.zeros_like(p['z'])).detach().clone()
        go_bytes = go.clone()
        try:
            if a[1] % 2 == 0:
                # the caller hands in its own cotangent tensor (for the physical storage of the result, as autograd.grad
                # users do): it is an argument like any other and must not be modified
                ph = p['zp'].physical
                go = torch.where(torch.isfinite(ph.detach()), torch.ones_like(ph), torch.zeros_like(ph)).detach().clone()
                go_bytes = go.clone()
                ph.backward(gradient=go, retain_graph=True)
                self.c.inc('probe.backward-with-caller-cotangent')
            else:
                (torch.where(mask, p['z'], torch.zeros_like(p['z'])) * cot).sum().backward(retain_graph=True)
            exc = None
        except RuntimeError as ex:
            exc = ex          # torch's own "modified by an inplace operation" is an error, never wrong data
        self.check_unchanged(before, 'backward', allow_grad=True)
        if not torch.equal(go, go_bytes):
            V('input-mutated', ['backward', 'cotangent'], f'backward overwrote the cotangent tensor passed by the caller: {go_bytes.tolist()} became {go.tolist()}')
        self.c.inc('probe.deferred-backward')
        if exc is not None:
            return ('backward', 'raised')
        # immediate forward+backward on a fresh deep copy of the grammar
        g2 = self.F.FGG.from_hrg(self.F.HRG.copy(g))      # structure only; weights are rebuilt below
        fresh_w = {}
        for nl, d in g.domains.items():
            g2.add_domain(self.F.NodeLabel(nl), d)
        for name, fac in g.factors.items():
            if not g2.has_edge_label_name(name):
                continue
            ow = fac.weights
            w = ow.physical.detach().clone().requires_grad_()
            fresh_w[name] = w
            IXm = sys.modules['fggs.indices']
            g2.add_factor(g2.get_edge_label(name), self.F.FiniteFactor(fac.domains, IXm.PatternedTensor(w, ow.paxes, ow.vaxes, ow.default)))
        S = semiring_obj(p['sem'], torch.float64)
        with recorded_warnings():
            z2 = self.F.sum_product(g2, semiring=S, method=p['method'], kmax=p['kmax'], tol=1e-9).to_dense()
        m2 = torch.isfinite(z2.detach())
        (torch.where(m2, z2, torch.zeros_like(z2))).sum().backward()
        for name, leaf in leaves:
            if name not in g2.factors:
                continue
            fac = g.factors[name]
            new = leaf.grad
            old = grads0[name]
            if old is not None and not bool(torch.isfinite(old).all()):
                # the accumulated .grad already held inf/nan from an earlier backward (divergent grammar): the increment of
                # this backward cannot be recovered by subtraction
                self.c.inc('probe.deferred-backward.accumulated-grad-nonfinite')
                continue
            delta = (torch.zeros_like(leaf) if new is None else new) - (torch.zeros_like(leaf) if old is None else old)
            # restrict to this factor's elements, densely
            ph = fac.weights.physical
            if name in self.big_names:
                delta = delta[1]
            IX = sys.modules['fggs.indices']
            dd = delta.reshape(ph.shape)
            want = fresh_w[name].grad
            want = torch.zeros_like(dd) if want is None else want.reshape(dd.shape)
            both_nonfinite = ~torch.isfinite(dd) & ~torch.isfinite(want)
            if not bool((torch.isclose(dd, want, rtol=1e-9, atol=1e-12, equal_nan=True) | both_nonfinite).all()):
                V('deferred-backward', [p['sem'], p['method']], f'd/d{name}: late backward gives {dd.tolist()}, immediate forward+backward on a fresh copy {want.tolist()}')
        return ('backward', 'ok')

    def op_clone_mutate(self, a):
        IX = sys.modules['fggs.indices']
        x = self.pick(a[0])
        facs = [f for f in x['g'].factors.values() if f.weights.physical.dtype.is_floating_point]
        if not facs:
            return None
        src = facs[a[1] % len(facs)].weights
        before = self.snaps()
        ssnap = pt_snap(src)
        dense0 = src.to_dense().detach().clone()
        with torch.no_grad():
            c = src.clone() if a[2] % 3 else src.detach().clone()
            k = a[3] % 6
            other = facs[a[4] % len(facs)].weights
            if k == 0:
                c.neg_()
            elif k == 1:
                c.abs_()
                c *= 3.0
            elif k == 2:
                c /= 2.0
            elif k == 3:
                c.copy_(other.detach() if other.shape == c.shape else IX.PatternedTensor(torch.full(tuple(c.shape), 7.0, dtype=c.physical.dtype)))
                c.neg_()
            elif k == 4:
                c.nan_to_num_(nan=1.0, posinf=2.0, neginf=-2.0)
                c.log1p_() if bool((c.to_dense() > -1).all()) else c.relu_()
            else:
                if a[5] % 2:
                    d = IX.PatternedTensor(torch.zeros(tuple(src.shape), dtype=src.physical.dtype))
                else:
                    d = IX.PatternedTensor.full(tuple(src.shape), 0.0, dtype=src.physical.dtype)   # other physical size: storage cannot be reused
                d.copy_(src.detach())       # copy_ into a destination, then overwrite the destination
                d.neg_()
                d *= 0.0
        if pt_snap(src) != ssnap or not torch.allclose(src.to_dense().detach(), dense0, rtol=0, atol=0, equal_nan=True):
            V('clone-aliases-source', ['PatternedTensor', ['neg_', 'abs_imul', 'itruediv', 'copy_neg_', 'nan_to_num_', 'copy_into'][k]],
              'an in-place operation on a clone / copy_ destination changed the source tensor')
        self.check_unchanged(before, 'clone_mutate')
        self.c.inc('probe.clone-mutate')
        return ('clone_mutate', k)

    def op_multi_clone_mutate(self, a):
        IX = sys.modules['fggs.indices']
        MU = sys.modules['fggs.multi']
        x = self.pick(a[0])
        S = semiring_obj('real', torch.float64)
        before = self.snaps()
        with torch.no_grad():
            shapes = {}
            vals = {}
            for name, fac in x['g'].factors.items():
                if not fac.weights.physical.dtype.is_floating_point:
                    continue
                shapes[name] = torch.Size(fac.weights.shape)
                vals[name] = fac.weights.detach()
            if not shapes:
                return None
            m = MU.MultiTensor(shapes, S)
            for k, v in vals.items():
                m[k] = v if a[1] % 2 else v.clone()
            msnap = {k: (pt_snap(t), t.to_dense().clone()) for k, t in m.items()}
            keys = list(m.keys())
            c = m.clone()
            op = a[2] % 4
            kk = keys[a[3] % len(keys)]
            if op == 0:
                c[kk].neg_()
            elif op == 1:
                t = c[kk]
                t *= 5.0
            elif op == 2:
                o = MU.MultiTensor(shapes, S)
                for k in keys:
                    o[k] = IX.PatternedTensor(torch.full(tuple(shapes[k]), 9.0, dtype=torch.float64)) if shapes[k] else IX.PatternedTensor(torch.tensor(9.0, dtype=torch.float64))
                c.copy_(o)
            else:
                c += m
                c[kk].abs_()
                c[kk].neg_()
            for k, t in m.items():
                if pt_snap(t) != msnap[k][0] or not torch.allclose(t.to_dense(), msnap[k][1], rtol=0, atol=0, equal_nan=True):
                    V('clone-aliases-source', ['MultiTensor', ['neg_', 'imul', 'copy_', 'iadd_neg_'][op]], f'an in-place operation on a MultiTensor clone changed the source block {k}')
        self.check_unchanged(before, 'multi_clone_mutate')
        self.c.inc('probe.multi-clone-mutate')
        return ('multi_clone_mutate', op)

    def op_repeat(self, a):
        """repeat an earlier operation verbatim"""
        done = [o for o in self.history if o['op'] not in ('repeat', 'derive_fgg', 'backward', 'clone_mutate', 'multi_clone_mutate')]
        if not done:
            return None
        o = done[a[0] % len(done)]
        return getattr(self, 'op_' + o['op'])(o['a'])

    def run(self):
        self.setup()
        self.history = []
        for op in self.case['ops']:
            r = getattr(self, 'op_' + op['op'])(op['a'])
            if r is None:
                continue
            self.nops += 1
            self.history.append(op)
            self.log.add(op['uid'], op['op'], r)
        self.probe_again()


def dense_bytes(t):
    d = t.to_dense().detach()
    return (tuple(d.shape), str(d.dtype), d.contiguous().numpy().tobytes())


def show(v):
    if v[0] == 'tensor':
        return str(np.frombuffer(v[1][2], dtype=np.bool_ if 'bool' in v[1][1] else np.float64).tolist())[:200]
    return str(v)[:300]


def same_result(a, b):
    return a == b


def hrg_digest(h):
    """structure of a result grammar up to implicit ids (names of fresh nonterminals included)"""
    out = [h.start.name, sorted(el.name for el in h.edge_labels())]
    for r in h.all_rules():
        ids = {}

        def nid(v):
            if v.persist_id:
                return v.id
            return ids.setdefault(v.id, 'i%d' % len(ids))
        out.append([r.lhs.name, [(nid(v), v.label.name) for v in r.rhs.nodes()],
                    sorted((e.label.name, tuple(nid(v) for v in e.nodes)) for e in r.rhs.edges()), [nid(v) for v in r.rhs.ext]])
    return json.dumps(out)


def deriv_digest(d):
    def go(x):
        rules = x.fgg.rules(x.rule.lhs)
        ri = next(i for i, r in enumerate(rules) if r is x.rule)
        return [x.rule.lhs.name, ri, sorted((str(n.id) if n.persist_id else n.label.name, v) for n, v in x.asst.items() if n.persist_id),
                sorted(v for n, v in x.asst.items() if not n.persist_id), [go(c) for c in x.children.values()]]
    return json.dumps(go(d))


def execute(case):
    F = import_repo()
    viol = []
    if not all(G.dom_size(d) > 0 for d in case['spec']['domains'].values()):
        raise Discard('empty domain')
    with Env(case['env']) as env:
        m = Machine(F, case, env)
        try:
            m.run()
        except Violation as v:
            viol.append(v.to_json())
        counters = dict(env.c)
    import hashlib
    shape = hashlib.sha256(json.dumps([case['spec'], [[o['op']] + o['a'] for o in case['ops']], case['weights']], sort_keys=True).encode()).hexdigest()[:16]
    return {'violations': viol, 'counters': counters, 'digest': m.log.digest(), 'shape': shape, 'steps': m.nops,
            'nontrivial': m.nops >= 5 and m.nrep >= 1}
