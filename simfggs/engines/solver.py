"""SOLVER engine (C02): the iterative solver as a stepped process.  fixed_point/newton call the one-step
operator F once per iteration; monitors on F and on SumProduct.apply_to_patterned_tensors turn every call into
an event, so the whole trajectory is observed without touching the loop.  Injected: budget cuts (kmax at, below,
above the number of steps the reference needs), linalg.solve failure, einsum block budget, skipped fast path."""
import copy
import json
import sys

import numpy as np
import torch

from ..rng import Stream
from ..core import Violation, Discard, Log, import_repo
from ..env import Env, recorded_warnings
from ..shrink import list_reductions
from ..gen import grammars as G
from ..ref import grammar_ref as GR
from .. import build
from .present import semiring_obj, lift

RULE = {'C02': 'seeded recursive grammars with a finite reference LFP (self-loops, mutual recursion, linear and non-linear, several SCC layers, '
               'weight-one cycles in the idempotent semirings) x semiring x method x tol x kmax chosen around the reference step count, with '
               'budget-cut / linalg-fail / block-budget / path-skip faults. non-trivial: grammar recursive and >=3 F events observed; '
               'distinct = distinct (grammar, configuration, fault) digests'}
DISTINCT = 'distinct (grammar, semiring, method, tol, kmax, faults) digests; simulated time = observed solver iterations'
SIMULATED = ['iteration budget (kmax) relative to the reference step count', 'torch.linalg.solve failure', 'einsum block budget', 'reduce_equation fast path skipped', 'id allocator / PhysicalAxis hash']
ORACLES = ['dense reference one-step operator per F event', 'Kleene LFP with a per-run bound (I-J*)^-1 tol', 'stop criterion reconstructed from the trajectory vs warnings issued',
           'reference linear-recursion test for method=linear']
ASSUMPTIONS = ['closeness is asserted only when no warning was issued and the spectral radius of the reference Jacobian is <= 0.95',
               'grammars whose reference Kleene iteration has not converged after 3000 steps are discarded']


def plan(prop, tier):
    if tier == 'quick':
        return {'runs': 2400, 'cap': 60.0, 'det_runs': 30, 'legs': [{'hashseed': h} for h in (0, 1, 2, 3)]}
    return {'cap': 120.0, 'budget_s': 900, 'legs': [{'hashseed': h} for h in (0, 1, 2, 3)]}


def generate(prop, seed, tier):
    g = Stream(seed, 'gen')
    sem = g.choice(['real', 'real', 'log', 'viterbi', 'bool'])
    rec = g.choice(['linear', 'linear-mutual', 'any', 'any'])
    menu = g.choice(['unit', 'unit', 'zeros', 'small']) if sem in ('viterbi', 'bool') else g.choice(['small', 'small', 'pos', 'zeros', 'small', 'grid'])
    spec = G.gen_spec(g, recursion=rec, weights=menu, max_nodes=3, max_edges=3, max_dom=2 if rec == 'any' else 3,
                      explicit_ids=g.choice(['mixed', 'none']), shapes=g.random() < 0.5)
    if not G.is_recursive(spec) or g.random() < 0.3:
        G.force_recursion(spec, g, nonlinear=(rec == 'any' and g.random() < 0.6))
    if g.random() < 0.35:
        G.add_diag_terminal(spec, g, 'unit' if menu == 'unit' else 'small')
    if g.random() < 0.3:
        G.add_closure_nt(spec, g, 'unit' if menu == 'unit' else 'small')
    if g.random() < 0.3:
        G.constant_factors(spec, g)
    if g.random() < 0.2:
        G.add_neq_terminal(spec, g, 'unit' if menu == 'unit' else 'small')
    if g.random() < 0.15:
        G.add_onehot_terminals(spec, g)
    method = g.choice(['fixed-point', 'fixed-point', 'newton', 'newton', 'linear'])
    if sem in ('real', 'log') and g.random() < 0.08:
        # several independent recursive components, each solved by its own run of the iterative method
        spec = G.multi_scc_spec(g)
        method = g.choice(['fixed-point', 'fixed-point', 'newton'])
    if g.random() < 0.06:
        # unit rules that permute or repeat the externals inside a linear SCC
        spec = G.perm_unit_spec(g, 'unit' if menu == 'unit' else 'small')
        method = g.choice(['linear', 'newton', 'newton', 'fixed-point'])
    if g.random() < 0.12:
        # one linear SCC of 3-5 mutually recursive nonterminals (ring + chords): block elimination with fill-in
        spec = G.ring_chord_spec(g, 'unit' if menu == 'unit' else 'small')
        method = g.choice(['linear', 'newton', 'newton', 'fixed-point', 'fixed-point'])
        if g.random() < 0.4:
            G.add_onehot_terminals(spec, g)
    return {'engine': 'solver', 'prop': prop, 'seed': seed, 'spec': spec, 'semiring': sem, 'method': method,
            'tol': g.choice([1e-3, 1e-5, 1e-7, 1e-7, 0.0]), 'kmax_mode': g.choice(['0', '1', '2', 'K-1', 'K', 'K+5', '1000', '1000', '1000']),
            'env': {'alloc': {'mode': 'order', 'seed': seed}, 'axhash': seed,
                    'linalg_fail': g.choice([None, None, None, ['all'], [1], [3]]) if sem == 'real' else None,
                    'block_bytes': g.choice([None, None, 4096, 64, 8]), 'reduce_skip': g.random() < 0.2, 'dtype': 'float64'},
            'pres_seed': g.randrange(1 << 30),
            # history on the same FGG object: an earlier query under doubled weights (then halved in place), and/or the same
            # query repeated -- the answer and the warning must not depend on what the object was asked before
            'hist': {'prequery': g.choice([None, None, None, 'fixed-point', 'fixed-point', 'newton']),
                     'repeat': g.random() < 0.5,
                     # the grammar object is first queried without one of its (recursive) rules, which is added afterwards
                     'late_rule': g.randrange(1, 1 << 16) if g.random() < 0.2 else None}}


def reducers(case):
    h = case.get('hist') or {}
    for k, v in (('prequery', None), ('repeat', False), ('late_rule', None)):
        if h.get(k):
            c = copy.deepcopy(case)
            c['hist'][k] = v
            yield c
    for k, v in (('linalg_fail', None), ('block_bytes', None), ('reduce_skip', False)):
        if case['env'].get(k):
            c = copy.deepcopy(case)
            c['env'][k] = v
            yield c
    if case['kmax_mode'] != '1000':
        c = copy.deepcopy(case)
        c['kmax_mode'] = '1000'
        yield c
    spec = case['spec']
    for ri in range(len(spec['rules']) - 1, -1, -1):
        if len(spec['rules']) > 1:
            c = copy.deepcopy(case)
            del c['spec']['rules'][ri]
            yield c
    for ri, r in enumerate(spec['rules']):
        for ei in range(len(r['edges']) - 1, -1, -1):
            c = copy.deepcopy(case)
            del c['spec']['rules'][ri]['edges'][ei]
            yield c


def describe(case):
    return {'rules': [[r['lhs'], [n['label'] for n in r['nodes']], [(e['label'], e['att']) for e in r['edges']], r['ext']] for r in case['spec']['rules']],
            'semiring': case['semiring'], 'method': case['method'], 'tol': case['tol'], 'kmax_mode': case['kmax_mode'], 'env': case['env']}


def V(clause, feats, detail):
    raise Violation('C02', clause, feats, detail)


def to_ref(sem, t):
    """library tensor (dense torch) -> reference carrier (numpy)"""
    a = t.detach().to(torch.float64).numpy() if t.dtype != torch.bool else t.numpy()
    if sem == 'log':
        return np.exp(a)
    return a


def from_ref(sem, a):
    if sem == 'log':
        return np.log(a)
    return a


def dist(a, b):
    """L-inf distance the way allclose(atol=tol, rtol=0) sees it (equal infinities are at distance 0)"""
    if a.dtype == bool:
        return 0.0 if np.array_equal(a, b) else np.inf
    d = np.abs(a - b)
    d = np.where(a == b, 0.0, d)
    d = np.where(np.isnan(d), np.inf, d)
    return float(d.max()) if d.size else 0.0


def jacobian_bound(ref, xstar, comp, r_vec):
    """(I - J*)^-1 r for the nonterminals of the whole grammar (numeric Jacobian of the polynomial F), and rho(J*)"""
    nts = list(xstar)
    sizes = [int(np.prod(xstar[n].shape)) if xstar[n].shape else 1 for n in nts]
    off = np.concatenate([[0], np.cumsum(sizes)]).astype(int)
    N = int(off[-1])
    x0 = np.concatenate([np.asarray(xstar[n], dtype=np.float64).reshape(-1) for n in nts]) if N else np.zeros(0)

    def Fv(v):
        x = {n: v[off[i]:off[i + 1]].reshape(xstar[n].shape) for i, n in enumerate(nts)}
        y = ref.F(x)
        return np.concatenate([np.asarray(y[n], dtype=np.float64).reshape(-1) for n in nts])
    J = np.zeros((N, N))
    for j in range(N):
        h = 1e-4 * max(1.0, abs(x0[j]))
        e = np.zeros(N)
        e[j] = h
        lo = np.maximum(x0 - e, 0.0)
        J[:, j] = (Fv(x0 + e) - Fv(lo)) / ((x0 + e) - lo)[j]
    rho = max(abs(np.linalg.eigvals(J))) if N else 0.0
    if rho > 0.95:
        return None, rho
    r = np.concatenate([np.full(sizes[i], 1.0) * r_vec[n].reshape(-1) for i, n in enumerate(nts)])
    bnd = np.linalg.solve(np.eye(N) - J, r)
    return {n: bnd[off[i]:off[i + 1]].reshape(xstar[n].shape) for i, n in enumerate(nts)}, rho


def execute(case):
    F = import_repo()
    SP = sys.modules['fggs.sum_product']
    log = Log(keep=False)
    viol = []
    counters = {}
    spec, sem, method = case['spec'], case['semiring'], case['method']
    if not all(G.dom_size(d) > 0 for d in spec['domains'].values()):
        raise Discard('empty domain')
    refsem = 'real' if sem == 'log' else sem
    ref = GR.GrammarRef(spec, refsem)
    xstar, K, conv = ref.lfp(3000, rtol=1e-13)
    if not conv:
        raise Discard('reference LFP did not converge')
    if refsem == 'real' and not all(np.isfinite(v).all() for v in xstar.values()):
        raise Discard('reference LFP not finite')
    if refsem == 'viterbi' and any(np.isposinf(v).any() for v in xstar.values()):
        raise Discard('reference LFP not finite')
    comps, reach = G.sccs(spec)
    comp_of = {nt: c for c in comps for nt in c}
    cyclic = {c: (len(c) > 1 or any(nt in reach[nt] for nt in c)) for c in comps}
    nonlinear_rule = None
    for r in spec['rules']:
        c = comp_of[r['lhs']]
        if cyclic[c] and sum(1 for e in r['edges'] if e['label'] in c) >= 2:
            nonlinear_rule = r
    kmax = {'0': 0, '1': 1, '2': 2, 'K-1': max(0, K - 1), 'K': K, 'K+5': K + 5, '1000': 1000}[case['kmax_mode']]
    tol = case['tol']
    feats = [sem, method]
    nF = 0
    try:
        with Env(case['env']) as env:
            c = env.c
            dtype = torch.float64
            S = semiring_obj(sem, dtype)
            pres = build.random_presentation(spec, Stream(case['pres_seed'], 'pres'), allow_rename=False, allow_domperm=False, via=('api',))
            hist = case.get('hist') or {}
            late = None
            if hist.get('late_rule'):
                # candidates: a rule that carries a nonterminal edge, whose left-hand side keeps at least one other rule
                cands = [ri for ri, r in enumerate(spec['rules']) if any(e['label'] in spec['nts'] for e in r['edges'])
                         and sum(1 for r2 in spec['rules'] if r2['lhs'] == r['lhs']) >= 2]
                if cands:
                    late = cands[hist['late_rule'] % len(cands)]
            if late is None:
                B = build.build(spec, pres, interp=True, weights_transform=lift(sem), dtype=dtype)
            else:
                sub = copy.deepcopy(spec)
                del sub['rules'][late]
                B = build.build(sub, build.identity_presentation(sub), interp=True, weights_transform=lift(sem), dtype=dtype)
                try:
                    with recorded_warnings():
                        F.sum_products(B.fgg, semiring=S, method=method if method != 'linear' else 'fixed-point', tol=1e-3, kmax=25)
                except Exception:
                    pass
                r_ = spec['rules'][late]
                rhs = F.Graph()
                nodes_ = [F.Node(B.nls[v['label']], id=v.get('id')) for v in r_['nodes']]
                for v in nodes_:
                    rhs.add_node(v)
                for e in r_['edges']:
                    rhs.add_edge(F.Edge(B.labels[e['label']], [nodes_[i] for i in e['att']], id=e.get('id')))
                rhs.ext = [nodes_[i] for i in r_['ext']]
                B.fgg.add_rule(F.HRGRule(B.labels[r_['lhs']], rhs))
                c.inc('hist.rule-added-after-first-query')
            name_of = {B.labels[n]: n for n in spec['nts']}
            plain_weights = not any(t.get('pattern') is not None for t in spec['terms'].values())

            def scale_weights(up):
                # in-place change of the caller's weight tensors (x2 / :2, exact in binary; log carriers shift by log 2)
                import math as _m
                for f in B.fgg.factors.values():
                    ph = f.weights.physical
                    if sem == 'real':
                        ph.mul_(2.0) if up else ph.div_(2.0)
                    elif sem in ('log', 'viterbi'):
                        ph.add_(_m.log(2.0)) if up else ph.sub_(_m.log(2.0))

            if hist.get('prequery') and plain_weights:
                # an earlier query on the same object under larger weights; its outcome is not judged here
                scale_weights(True)
                try:
                    with recorded_warnings():
                        F.sum_products(B.fgg, semiring=S, method=hist['prequery'] if (hist['prequery'] != 'linear') else 'newton', tol=1e-3, kmax=25)
                except Exception:
                    pass
                scale_weights(False)
                c.inc('hist.prequery-then-inplace-weight-change')

            def run_query(tag):
                nonlocal nF, counters
                feats = [sem, method] + ([tag] if tag else [])
                events = []     # ('scc', labels, method) | ('F', x_in dict, y_out dict)
                origF, origA = SP.F, SP.SumProduct.apply_to_patterned_tensors

                def monF(fgg, x, inputs, semiring):
                    y = origF(fgg, x, inputs, semiring)
                    labels = list(x.shapes[0])
                    xin = {}
                    for el in B.labels.values():
                        if el.is_nonterminal:
                            if el in labels:
                                xin[name_of[el]] = x[el].to_dense().clone()
                            elif el in inputs:
                                xin[name_of[el]] = inputs[el].to_dense().clone()
                    yout = {name_of[el]: y[el].to_dense().clone() for el in labels}
                    events.append(('F', [name_of[el] for el in labels], xin, yout))
                    return y

                def monA(fgg, opts, in_labels, out_labels, *in_values):
                    events.append(('scc', [name_of[el] for el in out_labels], opts['method']))
                    return origA(fgg, opts, in_labels, out_labels, *in_values)
                SP.F = monF
                SP.SumProduct.apply_to_patterned_tensors = staticmethod(monA)
                exc = None
                try:
                    with recorded_warnings() as ws:
                        try:
                            res = F.sum_products(B.fgg, semiring=S, method=method, tol=tol, kmax=kmax)
                        except Exception as ex:
                            exc = ex
                finally:
                    SP.F = origF
                    SP.SumProduct.apply_to_patterned_tensors = staticmethod(origA)
                warns = [str(w.message) for w in ws]
                n_maxiter = sum(1 for w in warns if 'maximum iteration' in w)
                # ---- method=linear on a grammar that is not linearly recursive
                if method == 'linear':
                    if nonlinear_rule is not None:
                        c.inc('fault.must-fail-call.fired')
                        if not isinstance(exc, ValueError):
                            V('linear-must-raise', [sem, type(exc).__name__ if exc else 'returned'],
                              f'method=linear on a grammar with rule {nonlinear_rule["lhs"]} -> {[e["label"] for e in nonlinear_rule["edges"]]} (two nonterminals of its own SCC): '
                              f'{"returned a value" if exc is None else type(exc).__name__ + ": " + str(exc)}')
                        counters = dict(c)
                        raise StopIteration
                    if isinstance(exc, ValueError) and 'not linearly recursive' in str(exc):
                        V('linear-spurious-error', [sem], f'linearly recursive grammar rejected: {exc}')
                if exc is not None:
                    V('raised', feats + [type(exc).__name__, 'kmax=' + case['kmax_mode'] if kmax <= 2 else 'kmax>2'], f'sum_products raised {type(exc).__name__}: {exc}')
                # ---- oracle 1: every F event refines the reference one-step operator
                sccs_ev = []
                cur = None
                for ev in events:
                    if ev[0] == 'scc':
                        cur = {'labels': ev[1], 'method': ev[2], 'F': []}
                        sccs_ev.append(cur)
                    else:
                        nF += 1
                        xin = {n: to_ref(sem, t) for n, t in ev[2].items()}
                        full = {n: xin.get(n, ref.sem.zero(ref.shape[n])) for n in spec['nts']}
                        want = ref.F(full)
                        for n in ev[1]:
                            got = to_ref(sem, ev[3][n])
                            w = want[n]
                            if refsem == 'bool':
                                ok = np.array_equal(got.astype(bool), w.astype(bool))
                            else:
                                ok = bool(np.all((got == w) | (np.abs(got - w) <= 1e-9 * np.maximum(1e-300, np.maximum(np.abs(got), np.abs(w))))))
                            if not ok:
                                V('step-refinement', feats, f'F event #{nF} for {n}: library {got.tolist()} reference {np.asarray(w).tolist()} at input {dict((k, v.tolist()) for k, v in xin.items())}')
                        if cur is not None:
                            cur['F'].append(ev)
                c.inc('solver.F-events', nF)
                c.inc('solver.scc-solves', len(sccs_ev))
                # ---- oracle 2: no silent non-convergence
                unmet = 0
                for sc in sccs_ev:
                    fe = sc['F']
                    if sc['method'] == 'fixed-point' and fe:
                        last_in = {n: fe[-1][2][n] for n in sc['labels']}
                        last_out = fe[-1][3]
                        d = max(dist(to_ref('real', last_in[n]) if sem != 'bool' else last_in[n].numpy(),
                                     to_ref('real', last_out[n]) if sem != 'bool' else last_out[n].numpy()) for n in sc['labels'])
                        # the solver compares in its own carrier (log values for Log/Viterbi)
                        if d > (0 if sem == 'bool' else tol):
                            unmet += 1
                            c.inc('fault.budget-cut.fired')
                    elif sc['method'] == 'newton':
                        if len(fe) >= kmax:
                            # budget used up: was the criterion met at the last iteration?
                            if fe:
                                x0 = {n: fe[-1][2][n] for n in sc['labels']}
                                f0 = {n: torch.maximum(fe[-1][3][n], x0[n]) if sem != 'bool' else (fe[-1][3][n] | x0[n]) for n in sc['labels']}
                                d = max(dist(x0[n].numpy() if sem == 'bool' else x0[n].to(torch.float64).numpy(),
                                             f0[n].numpy() if sem == 'bool' else f0[n].to(torch.float64).numpy()) for n in sc['labels'])
                                met = d <= (0 if sem == 'bool' else tol)
                            else:
                                met = False      # kmax = 0: not a single iteration was made
                            if not met:
                                unmet += 1
                                c.inc('fault.budget-cut.fired')
                # the budget the caller gave applies to every run of the iterative method (one per component): a warning only
                # excuses the value if some component really used (nearly) kmax iterations; otherwise the value is judged
                exhausted = any(len(sc['F']) >= kmax - 1 for sc in sccs_ev if sc['method'] in ('fixed-point', 'newton'))
                judge = (n_maxiter == 0) or not exhausted
                if n_maxiter and not exhausted:
                    c.inc('probe.warning-without-exhausted-budget')
                if unmet > n_maxiter:
                    V('silent-nonconvergence', feats + ['kmax=' + case['kmax_mode']],
                      f'{unmet} SCC iteration(s) ended with the stopping criterion unmet but {n_maxiter} warning(s) were issued (kmax={kmax}, tol={tol})')
                # ---- oracle 3: value
                for nt in spec['nts']:
                    el = B.labels[nt]
                    if el not in res:
                        V('value', feats + ['missing'], f'no value for {nt}')
                got = {nt: to_ref(sem, res[B.labels[nt]].to_dense()) for nt in spec['nts']}
                scale = {nt: np.maximum(1.0, np.abs(np.where(np.isfinite(xstar[nt]), xstar[nt], 0.0))) if refsem != 'bool' else None for nt in spec['nts']}
                if refsem == 'bool':
                    if judge:
                        for nt in spec['nts']:
                            if not np.array_equal(got[nt].astype(bool), xstar[nt].astype(bool)):
                                V('value', feats + ['bool'], f'{nt}: {got[nt].tolist()} expected {xstar[nt].tolist()}')
                elif refsem == 'viterbi':
                    for nt in spec['nts']:
                        g_, w_ = got[nt], xstar[nt]
                        if not np.all((g_ <= w_ + 1e-9 * scale[nt]) | (g_ == w_)):
                            V('value', feats + ['above-lfp'], f'{nt}: {g_.tolist()} exceeds the least fixed point {w_.tolist()}')
                        if judge and not np.all((g_ == w_) | (np.abs(g_ - w_) <= 1e-9 * scale[nt])):
                            V('value', feats + ['viterbi'], f'{nt}: {g_.tolist()} expected {w_.tolist()} (no warning issued)')
                else:
                    for nt in spec['nts']:
                        if not np.all(got[nt] <= xstar[nt] + 1e-7 * scale[nt] + 1e-12):
                            V('value', feats + ['above-lfp'], f'{nt}: {got[nt].tolist()} exceeds the least fixed point {xstar[nt].tolist()}')
                    if judge:
                        if method == 'linear':
                            bnd, rho = jacobian_bound(ref, xstar, None, {n: np.zeros(ref.shape[n]) for n in spec['nts']})
                            if bnd is not None:
                                for nt in spec['nts']:
                                    if not np.all(np.abs(got[nt] - xstar[nt]) <= 1e-7 * scale[nt] / max(1e-3, 1 - rho)):
                                        V('value', feats + ['linear'], f'{nt}: {got[nt].tolist()} expected {xstar[nt].tolist()}')
                                c.inc('value.closeness-asserted')
                        else:
                            if sem == 'log':
                                r_vec = {n: (np.exp(tol) - 1.0) * np.maximum(xstar[n], 0.0) for n in spec['nts']}
                            else:
                                r_vec = {n: np.full(ref.shape[n], tol) for n in spec['nts']}
                            bnd, rho = jacobian_bound(ref, xstar, None, r_vec)
                            if bnd is not None:
                                for nt in spec['nts']:
                                    allow = 1.5 * bnd[nt] + 1e-7 * scale[nt]
                                    if not np.all(xstar[nt] - got[nt] <= allow):
                                        V('value', feats + ['error-exceeds-tol-bound', 'tol=%g' % tol],
                                          f'{nt}: returned {got[nt].tolist()}, least fixed point {xstar[nt].tolist()}, allowed error {allow.tolist()} (tol={tol}, rho(J*)={rho:.3f})')
                                c.inc('value.closeness-asserted')
                            else:
                                c.inc('value.near-critical-skipped')
                if n_maxiter:
                    c.inc('warnings.maximum-iteration', n_maxiter)
                log.add('res', feats, case['kmax_mode'], nF, n_maxiter, {nt: np.round(np.where(np.isfinite(got[nt].astype(float)), got[nt].astype(float), -1.0), 6).tolist() for nt in spec['nts']})

            run_query('')
            if hist.get('repeat'):
                c.inc('hist.repeated-query')
                run_query('repeat')
            counters = dict(c)
    except StopIteration:
        pass
    except Violation as v:
        viol.append(v.to_json())
    import hashlib
    shape = hashlib.sha256(json.dumps([spec, sem, method, case['tol'], case['kmax_mode'], case['env']], sort_keys=True).encode()).hexdigest()[:16]
    return {'violations': viol, 'counters': counters, 'digest': log.digest(), 'shape': shape, 'steps': nF,
            'nontrivial': G.is_recursive(spec) and nF >= 3}
