"""REPLACE engine (C15): every linearisation (sampled) of the replacement steps of a derivation
tree, under a simulated id allocator incl. legal reuse of dead ids, with wrong-type
replacements mixed in as calls that must fail.

Oracle: per-step frame/freshness checks on the returned maps, and an order-free model graph
built from the derivation tree alone by union-find; composing the returned maps must give a
bijection from the model graph to the host graph at the end of *every* schedule.
"""
import copy
import json
import math

from ..rng import Stream
from ..core import Violation, Discard, Log, import_repo
from ..env import Env
from ..shrink import list_reductions
from ..gen import grammars as G
from ..ref import grammar_ref as GR
from ..ref import iso
from .. import build

RULE = {'C15': 'seeded HRG + derivation tree (<=12 rule instances, rules reused) + several schedules of the same tree '
               '(dfs, bfs, reverse, random) + wrong-type replacements; non-trivial if the tree has >=3 instances and >=2 '
               'distinct schedules; distinct = distinct (tree shape, schedule set) digests'}
DISTINCT = 'distinct (derivation tree, executed linearisations) pairs; also reported: schedules executed vs linear extensions of the trees'
SIMULATED = ['id allocator (PRNG order / legal reuse of dead ids)', 'order of replacement steps (the schedule)']
ORACLES = ['order-free model graph (union-find over (tree position, rule node))', 'per-step frame and freshness checks',
           'VF2 isomorphism of derive() against the model graph', 'independent product of rule-instance weights']
ASSUMPTIONS = ['rules whose external node list repeats a node are excluded (identification with distinct attachment nodes is not defined by the statement)']


def plan(prop, tier):
    if tier == 'quick':
        return {'runs': 4000, 'cap': 30.0, 'det_runs': 40, 'legs': [{'hashseed': h} for h in (0, 1, 2, 3)]}
    return {'cap': 60.0, 'budget_s': 900, 'legs': [{'hashseed': h} for h in (0, 1, 2, 3)]}


def positions(tree, pos=()):
    yield pos, tree
    for j, c in enumerate(tree[1]):
        yield from positions(c, pos + (j,))


def generate(prop, seed, tier):
    g = Stream(seed, 'gen')
    big = tier != 'quick'
    for attempt in range(50):
        spec = G.gen_spec(g, max_nts=3, max_rules=3, max_nodes=4 + big, max_edges=4, recursion=g.choice(['any', 'any', 'none', 'linear']),
                          weights='prob', explicit_ids=g.choice(['mixed', 'none', 'all']), repeat_ext=False,
                          start_arity=g.choice([0, 0, 1, 2]))
        tree = GR.random_tree(spec, spec['start'], g, g.choice([2, 3, 4, 5, 6]), [g.choice([2, 4, 6, 9, 12 if not big else 18])])
        if tree is not None and GR.tree_size(tree) <= (14 if not big else 24) and (GR.tree_size(tree) >= 2 or attempt > 20):
            break
    else:
        raise Discard('no derivation found')
    if g.random() < 0.04:
        # one large range domain: node values beyond CPython's small-int cache, so that equal values handed to different rule
        # instances are different objects (as they are when they come out of a JSON document or of arithmetic)
        nl = g.choice(sorted(spec['domains']))
        if all(len(t['type']) <= 2 for t in spec['terms'].values() if nl in t['type']):
            spec['domains'][nl] = {'kind': 'range', 'size': g.randrange(258, 330)}
            for t in spec['terms'].values():
                if nl in t['type']:
                    shape = G.sizes_of(spec, t['type'])
                    base = [round(0.2 + 0.7 * g.random(), 3) for _ in range(7)]
                    t['weights'] = G.nested([base[i % 7] for i in range(G.numel(shape))], list(shape))
                    t.pop('pattern', None)
    n = GR.tree_size(tree)
    kinds = ['dfs', 'bfs', 'rev', 'rand', 'rand', 'rand']
    g.shuffle(kinds)
    scheds = []
    for k in kinds[:g.randrange(2, 5)]:
        scheds.append({'kind': k, 'choices': [g.randrange(1 << 16) for _ in range(n)],
                       'wrong_at': sorted({g.randrange(n) for _ in range(g.randrange(0, 3))}),
                       'alloc': g.choice(['order', 'reuse', 'reuse', 'seq'])})
    return {'engine': 'replace', 'prop': prop, 'seed': seed, 'spec': spec, 'tree': tree, 'schedules': scheds,
            'max_steps': n, 'asst_seed': g.randrange(1 << 30), 'derive': True}


def reducers(case):
    yield from list_reductions(case, ['schedules'], min_len=1)
    if case.get('derive'):
        c = copy.deepcopy(case)
        c['derive'] = False
        yield c
    for i, s in enumerate(case['schedules']):
        if s['wrong_at']:
            c = copy.deepcopy(case)
            c['schedules'][i]['wrong_at'] = []
            yield c
        if s['alloc'] != 'seq':
            c = copy.deepcopy(case)
            c['schedules'][i]['alloc'] = 'seq'
            yield c
        if s['kind'] != 'dfs':
            c = copy.deepcopy(case)
            c['schedules'][i]['kind'] = 'dfs'
            yield c
    m = case['max_steps']
    for k in (m // 2, m - 1):
        if 0 < k < m:
            c = copy.deepcopy(case)
            c['max_steps'] = k
            yield c

    # prune the tree: replace a subtree by the smallest derivation of the same nonterminal
    def small(nt):
        for d in (1, 2, 3):
            ts = GR.derivations(case['spec'], nt, d, limit=20)
            if ts:
                return min(ts, key=GR.tree_size)
        return None
    tl = json.loads(json.dumps(case['tree']))
    for pos, sub in list(positions(tl)):
        if not pos:
            continue
        nt = case['spec']['rules'][sub[0]]['lhs']
        sm = small(nt)
        if sm is None or GR.tree_size(sm) >= GR.tree_size(sub):
            continue
        c = copy.deepcopy(case)
        t = c['tree']
        for j in pos[:-1]:
            t = t[1][j]
        t[1][pos[-1]] = json.loads(json.dumps(sm))
        c['max_steps'] = GR.tree_size(c['tree'])
        yield c


def describe(case):
    return {'tree': case['tree'], 'rules': [[r['lhs'], len(r['nodes']), [e['label'] for e in r['edges']], r['ext']] for r in case['spec']['rules']],
            'schedules': [[s['kind'], s['alloc'], s['wrong_at']] for s in case['schedules']]}


def linear_extensions(tree):
    """number of linearisations of the replacement steps (hook length formula for forests/trees)"""
    n = GR.tree_size(tree)
    prod = 1
    for _, sub in positions(tree):
        prod *= GR.tree_size(sub)
    return math.factorial(n) // prod


def V(clause, feats, detail):
    raise Violation('C15', clause, feats, detail)


def gsnap(g):
    return (list(g.nodes()), list(g.edges()), tuple(g.ext))


def run_schedule(F, case, sched, B, log, counters):
    spec, tree = case['spec'], case['tree']
    hrg = B.fgg
    tl = tree
    host = F.start_graph(hrg)
    if len(list(host.edges())) != 1:
        V('start-graph', ['edges'], 'start_graph must contain exactly one edge')
    e0 = list(host.edges())[0]
    if e0.label != hrg.start or list(host.nodes()) != list(e0.nodes) or len(host.ext) != 0 and tuple(host.ext) != tuple(e0.nodes):
        pass
    if e0.label != hrg.start:
        V('start-graph', ['label'], 'start_graph edge is not labelled by the start symbol')
    # model: union-find over (pos, node index)
    parent = {}

    def find(x):
        while parent.setdefault(x, x) != x:
            parent[x] = parent[parent[x]]
            x = parent[x]
        return x

    def union(a, b):
        parent[find(a)] = find(b)
    image = {}          # class representative is resolved lazily: (pos, idx) -> host node
    # the start edge's attachment nodes play the role of the root's external nodes
    root_rule = spec['rules'][tl[0]]
    pending = [((), tl, e0)]
    expanded = []       # (pos, rule index)
    edge_image = {}     # (pos, edge idx) -> host edge
    steps = 0
    order_sig = []
    rng_pick = 0
    while pending and steps < case['max_steps']:
        c = sched['choices'][steps % len(sched['choices'])]
        k = sched['kind']
        i = {'dfs': len(pending) - 1, 'bfs': 0, 'rev': len(pending) - 1 if steps % 2 else 0}.get(k, c % len(pending))
        pos, sub, edge = pending.pop(i)
        if isinstance(edge, tuple):
            # the pending edge is looked up in the map its parent's replacement returned, now -- possibly many replacements
            # later (carrying out a derivation step by step in any order needs exactly that)
            emap, key, snap_ = edge
            try:
                edge = emap[key]
            except KeyError:
                V('edge-map', ['returned-map-invalid-later'], 'the edge_map returned by an earlier replace_edge no longer contains the rule edge it was returned for')
            if edge is not snap_ and edge != snap_:
                V('edge-map', ['returned-map-changed-later'], 'the edge_map returned by an earlier replace_edge maps the rule edge to another host edge than when it was returned')
        ri = sub[0]
        rule = B.rules[ri]
        r = spec['rules'][ri]
        order_sig.append(list(pos))
        # wrong-type replacement first: must raise ValueError and leave the host unchanged
        if steps in sched['wrong_at']:
            wrong = None
            for rj, r2 in enumerate(spec['rules']):
                t2 = [r2['nodes'][x]['label'] for x in r2['ext']]
                t1 = [r['nodes'][x]['label'] for x in r['ext']]
                if t2 != t1:
                    wrong = B.rules[rj].rhs
                    wt = t2
                    # prefer a type that agrees on the common prefix
                    if t2[:len(t1)] == t1[:len(t2)]:
                        break
            if c % 3 == 0:
                # a graph whose type was read once (as HRGRule validation does) and whose externals were changed afterwards
                wrong = rule.rhs.copy()
                _ = wrong.type
                extra = F.Node(F.NodeLabel(sorted(spec['domains'])[0]))
                wrong.ext = list(wrong.ext) + [extra]
                wt = 'type-read-before-ext-changed'
                counters.inc('probe.wrong-type.stale-type')
            if wrong is None:
                wrong = F.Graph()
                extra = F.Node(F.NodeLabel(sorted(spec['domains'])[0]))
                wrong.ext = list(rule.rhs.ext) + [extra]
                wt = 'extended'
            before = gsnap(host)
            counters.inc('fault.must-fail-call.fired')
            try:
                F.replace_edge(host, edge, wrong)
                raised = None
            except Exception as ex:      # the statement says "rejects"; the class of the exception is not part of it
                raised = ex
            if raised is None:
                V('wrong-type', ['accepted'], f'replace_edge accepted a replacement of type {wt} for an edge of type {[l.name for l in edge.label.type]}')
            if gsnap(host) != before:
                V('wrong-type', ['host-changed'], 'a rejected replacement changed the host graph')
        before_nodes, before_edges, before_ext = gsnap(host)
        rsnap = gsnap(rule.rhs)
        node_map, edge_map = F.replace_edge(host, edge, rule.rhs)
        steps += 1
        counters.inc('steps.replace')
        after_nodes, after_edges, after_ext = gsnap(host)
        if gsnap(rule.rhs) != rsnap:
            V('replacement-mutated', [], 'replace_edge changed the replacement graph')
        # a. exactly that edge disappeared, everything else untouched
        if any(e is edge or e == edge for e in after_edges):
            V('edge-not-removed', [], f'edge {edge.id} still in host')
        for e in before_edges:
            if e is not edge and not any(x is e for x in after_edges):
                V('frame', ['edge-lost'], f'pre-existing edge {e.id} disappeared')
        for n in before_nodes:
            if not any(x is n for x in after_nodes):
                V('frame', ['node-lost'], f'pre-existing node {n.id} disappeared')
        if after_ext != before_ext:
            V('frame', ['ext-changed'], 'external nodes of the host changed')
        # b. node_map
        rnodes = list(rule.rhs.nodes())
        if set(map(id, node_map.keys())) != set(map(id, rnodes)) and set(node_map.keys()) != set(rnodes):
            V('node-map', ['keys'], f'node_map keys are not the replacement nodes ({len(node_map)} vs {len(rnodes)})')
        for kx, rn in enumerate(rule.rhs.ext):
            if node_map[rn] is not edge.nodes[kx] and node_map[rn] != edge.nodes[kx]:
                V('node-map', ['external-not-attachment'], f'external {kx} not identified with attachment node {kx}')
        ext_set = set(rule.rhs.ext)
        fresh = []
        for rn in rnodes:
            if rn in ext_set:
                continue
            im = node_map[rn]
            if im is rn or im == rn:
                V('fresh-copy', ['rule-node-inserted-itself'], f'node {rn.id} of the rule was put into the host instead of a copy')
            if any(im == b for b in before_nodes):
                V('fresh-copy', ['image-not-new'], f'image of {rn.id} equals a node that was already in the host')
            if not any(x is im or x == im for x in after_nodes):
                V('fresh-copy', ['image-not-in-host'], f'image of internal node {rn.id} (label {rn.label.name}) is not a node of the host')
            if im.label != rn.label:
                V('fresh-copy', ['label'], f'image of {rn.id} has label {im.label.name}')
            if any(im == f for f in fresh):
                V('fresh-copy', ['images-collide'], 'two replacement nodes share an image')
            fresh.append(im)
        # c. edge_map
        redges = list(rule.rhs.edges())
        if set(edge_map.keys()) != set(redges):
            V('edge-map', ['keys'], 'edge_map keys are not the replacement edges')
        imgs = []
        for re_ in redges:
            ge = edge_map[re_]
            if ge.label != re_.label:
                V('edge-map', ['label'], f'edge {re_.id} copied with label {ge.label.name}')
            want = tuple(node_map[n] for n in re_.nodes)
            if tuple(ge.nodes) != want:
                V('edge-map', ['attachment'], f'edge {re_.id} copied with other attachment nodes/order')
            if any(ge == b for b in before_edges) or ge == re_ or any(ge == x for x in imgs):
                V('fresh-copy', ['edge-image-not-new'], f'image of edge {re_.id} is not a fresh edge')
            if not any(x is ge or x == ge for x in after_edges):
                V('edge-map', ['image-not-in-host'], f'image of edge {re_.id} not in host')
            imgs.append(ge)
        # d. nothing else was added
        if len(after_nodes) != len(before_nodes) + len(fresh):
            V('frame', ['node-count'], f'{len(after_nodes)} nodes after, expected {len(before_nodes) + len(fresh)}')
        if len(after_edges) != len(before_edges) - 1 + len(redges):
            V('frame', ['edge-count'], f'{len(after_edges)} edges after, expected {len(before_edges) - 1 + len(redges)}')
        # update the model
        expanded.append((pos, ri))
        for idx, v in enumerate(r['nodes']):
            image[(pos, idx)] = node_map[B.nodes[(ri, idx)]]
        if pos == ():
            pass
        nts = GR.nt_edges(spec, r)
        for j, ei in enumerate(nts):
            child = sub[1][j]
            cr = spec['rules'][child[0]]
            for kx, ext_idx in enumerate(cr['ext']):
                union((pos + (j,), ext_idx), (pos, r['edges'][ei]['att'][kx]))
            pending.append((pos + (j,), child, (edge_map, B.edges[(ri, ei)], edge_map[B.edges[(ri, ei)]])))
        for ei, e in enumerate(r['edges']):
            edge_image[(pos, ei)] = edge_map[B.edges[(ri, ei)]]
        del before_nodes, before_edges, after_nodes, after_edges, node_map, fresh, imgs
    # ---- global: composed maps give a bijection model graph -> host graph
    cls = {}
    for key, im in image.items():
        rep = find(key)
        if rep in cls and cls[rep] != im:
            V('confluence', ['class-split'], f'model node class {rep} has two images in the host')
        cls[rep] = im
    ims = list(cls.values())
    if len(set(ims)) != len(ims):
        V('confluence', ['classes-merged'], 'two distinct model nodes share one host node')
    hn = list(host.nodes())
    # the start edge's own attachment nodes belong to the host from the beginning (root externals map onto them)
    if set(hn) != set(ims) | set(e0.nodes) or len(hn) != len(set(ims) | set(e0.nodes)):
        V('confluence', ['node-set'], f'host has {len(hn)} nodes, model graph has {len(set(ims) | set(e0.nodes))}')
    live = {}
    exp_pos = {p for p, _ in expanded}
    for (pos, ri) in expanded:
        r = spec['rules'][ri]
        nts = GR.nt_edges(spec, r)
        for ei, e in enumerate(r['edges']):
            if ei in nts and (pos + (nts.index(ei),)) in exp_pos:
                continue        # this nonterminal edge was itself replaced
            live[(pos, ei)] = edge_image[(pos, ei)]
    he = list(host.edges())
    if len(he) != len(live) + (0 if expanded else 1) or set(he) != (set(live.values()) if expanded else {e0}):
        V('confluence', ['edge-set'], f'host has {len(he)} edges, model graph has {len(live)}')
    for (pos, ei), ge in live.items():
        r = spec['rules'][dict(expanded)[pos]]
        want = tuple(cls[find((pos, k))] for k in r['edges'][ei]['att'])
        if tuple(ge.nodes) != want:
            V('confluence', ['edge-attachment'], f'edge {(pos, ei)} attached to other nodes than the model says')
    log.add('sched', sched['kind'], sched['alloc'], order_sig, len(hn), len(he))
    model = {'classes': cls, 'find': find, 'live': live, 'expanded': expanded, 'complete': not pending}
    return host, model, order_sig


def check_derive(F, case, B, model_nodes_labels, counters, log):
    """FGGDerivation.derive(): graph isomorphic to the model graph, total assignment, weight product"""
    import torch
    spec, tree = case['spec'], case['tree']
    g = Stream(case['asst_seed'], 'asst')
    # model graph from the tree alone
    parent = {}

    def find(x):
        while parent.setdefault(x, x) != x:
            parent[x] = parent[parent[x]]
            x = parent[x]
        return x
    inst = list(positions(tree))
    for pos, sub in inst:
        r = spec['rules'][sub[0]]
        for idx in range(len(r['nodes'])):
            find((pos, idx))
        for j, ei in enumerate(GR.nt_edges(spec, r)):
            cr = spec['rules'][sub[1][j][0]]
            for kx, ext_idx in enumerate(cr['ext']):
                parent[find((pos + (j,), ext_idx))] = find((pos, r['edges'][ei]['att'][kx]))
    value = {}
    label = {}
    for pos, sub in inst:
        r = spec['rules'][sub[0]]
        for idx, v in enumerate(r['nodes']):
            rep = find((pos, idx))
            label[rep] = v['label']
            if rep not in value:
                dsz = G.dom_size(spec['domains'][v['label']])
                value[rep] = (g.randrange(257, dsz) if dsz > 257 and g.random() < 0.8 else g.randrange(dsz)) if dsz else None
    if any(v is None for v in value.values()):
        return
    m_edges = []
    for pos, sub in inst:
        r = spec['rules'][sub[0]]
        for ei, e in enumerate(r['edges']):
            if e['label'] in spec['terms']:
                m_edges.append((e['label'], [find((pos, k)) for k in e['att']]))
    # the real derivation objects

    shared = {}

    def sig_of(pos, sub):
        r_ = spec['rules'][sub[0]]
        return (sub[0], tuple(value[find((pos, idx))] for idx in range(len(r_['nodes']))),
                tuple(sig_of(pos + (j,), c_) for j, c_ in enumerate(sub[1])))

    def mk(pos, sub):
        # identical sub-derivations (same rules, same values) may be one and the same object in the caller's tree
        key = sig_of(pos, sub)
        if key in shared and g.random() < 0.7:
            counters.inc('probe.shared-subderivation-object')
            return shared[key]
        d_ = mk1(pos, sub)
        shared[key] = d_
        return d_

    def mk1(pos, sub):
        ri = sub[0]
        r = spec['rules'][ri]
        # every rule instance gets its own value objects (equal, not identical, beyond the small-int cache)
        asst = {B.nodes[(ri, idx)]: int(str(value[find((pos, idx))])) for idx in range(len(r['nodes']))}
        if any(v_ > 256 for v_ in asst.values()):
            counters.inc('probe.derive-values-beyond-small-int-cache')
        pairs = [(B.edges[(ri, ei)], mk(pos + (j,), sub[1][j])) for j, ei in enumerate(GR.nt_edges(spec, r))]
        g.shuffle(pairs)        # the children mapping is keyed by edge; its insertion order is the caller's business
        kids = dict(pairs)
        return F.FGGDerivation(B.fgg, B.rules[ri], asst, kids)
    d = mk((), tree)
    graph, asst = d.derive()
    counters.inc('steps.derive')
    if any(e.label.is_nonterminal for e in graph.edges()):
        V('derive', ['nonterminal-left'], 'derive() left a nonterminal edge in the graph')
    gn = list(graph.nodes())
    missing = [n for n in gn if n not in asst]
    if missing:
        V('derive', ['assignment-not-total'], f'{len(missing)} of {len(gn)} nodes of the derived graph have no value')
    extra = [n for n in asst if n not in set(gn)]
    if extra:
        V('derive', ['assignment-of-non-node'], f'{len(extra)} assigned nodes are not nodes of the derived graph')
    rn_el = lambda x: B.labels[x].name
    rn_nl = lambda x: B.nls[x].name
    a = iso.incidence({rep: (rn_nl(label[rep]), value[rep]) for rep in value},
                      [((rn_el(l), True, tuple(rn_nl(spec['terms'][l]['type'][i]) for i in range(len(att)))), att) for l, att in m_edges],
                      [])
    b = iso.graph_incidence(graph, node_extra=lambda n: asst.get(n))
    # derive() keeps the start edge's attachment nodes as ordinary nodes; externals are not set
    if not iso.isomorphic(a, b):
        V('derive', ['not-isomorphic-to-model'], f'derive(): {graph.nodes().__len__()} nodes/{len(list(graph.edges()))} edges, model: {len(value)} nodes/{len(m_edges)} edges (or labels/values/attachments differ)')
    # weight product
    W = {l: torch.tensor(spec['terms'][l]['weights'], dtype=torch.float64).reshape(G.sizes_of(spec, spec['terms'][l]['type'])) for l in spec['terms']}
    want = 1.0
    for l, att in m_edges:
        want *= float(W[l][tuple(value[k] for k in att)]) if att else float(W[l])
    got = 1.0
    for e in graph.edges():
        w = graph.factors[e.label.name].weights.to_dense()
        got *= float(w[tuple(asst[n] for n in e.nodes)]) if e.nodes else float(w)
    if not (got == want or abs(got - want) <= 1e-9 * max(abs(got), abs(want))):
        V('derive', ['weight-product'], f'product over derived factor graph {got} != product over rule instances {want}')
    if graph.factors is not B.fgg.factors and graph.factors != B.fgg.factors:
        V('derive', ['factors'], 'derived factor graph does not carry the grammar factors')
    log.add('derive', len(gn), got)


def execute(case):
    F = import_repo()
    log = Log(keep=False)
    viol = []
    counters = None
    scheds_done = []
    allc = {}
    try:
        for si, sched in enumerate(case['schedules']):
            with Env({'alloc': {'mode': sched['alloc'], 'seed': case['seed'] * 31 + si}}) as env:
                B = build.build(case['spec'], None, interp=True)
                host, model, order = run_schedule(F, case, sched, B, log, env.c)
                scheds_done.append(json.dumps(order))
                if case.get('derive') and si == 0:
                    check_derive(F, case, B, None, env.c, log)
                if si == 0 and (case['seed'] % 4 == 0):
                    # the same rule objects are used for a second derivation after one right-hand side was edited in place
                    # (a terminal edge relabelled: node and edge counts and the externals stay as they were)
                    spec0 = case['spec']
                    cands = []
                    for ri_, r_ in enumerate(spec0['rules']):
                        for ei_, e_ in enumerate(r_['edges']):
                            if e_['label'] in spec0['terms']:
                                alts = [t_ for t_, d_ in spec0['terms'].items() if t_ != e_['label'] and d_['type'] == spec0['terms'][e_['label']]['type']]
                                if alts:
                                    cands.append((ri_, ei_, sorted(alts)[0]))
                    if cands:
                        ri_, ei_, t2 = cands[case['seed'] // 4 % len(cands)]
                        case2 = dict(case)
                        case2['spec'] = copy.deepcopy(spec0)
                        case2['spec']['rules'][ri_]['edges'][ei_]['label'] = t2
                        rhs_ = B.rules[ri_].rhs
                        old_e = B.edges[(ri_, ei_)]
                        rhs_.remove_edge(old_e)
                        new_e = F.Edge(B.labels[t2], list(old_e.nodes), id=old_e.id if old_e.persist_id else None)
                        rhs_.add_edge(new_e)
                        B.edges[(ri_, ei_)] = new_e
                        env.c.inc('hist.rhs-edited-in-place-then-derived-again')
                        run_schedule(F, case2, sched, B, log, env.c)
                for k, v in env.c.items():
                    allc[k] = allc.get(k, 0) + v
                del B, host, model
    except Violation as v:
        viol.append(v.to_json())
    n = GR.tree_size(case['tree'])
    distinct = len(set(scheds_done))
    allc['schedules.executed'] = len(scheds_done)
    allc['schedules.distinct'] = distinct
    allc['linear-extensions.total'] = min(linear_extensions(case['tree']), 10 ** 12)
    allc['probe.tree>=6'] = 1 if n >= 6 else 0
    import hashlib
    shape = hashlib.sha256(json.dumps([case['tree'], sorted(set(scheds_done))]).encode()).hexdigest()[:16]
    return {'violations': viol, 'counters': allc, 'digest': log.digest(), 'shape': shape,
            'steps': allc.get('steps.replace', 0), 'nontrivial': n >= 3 and distinct >= 2}
