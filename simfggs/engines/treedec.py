"""TREEDEC engine (C10): one undirected graph under several presentations (vertex objects hashed by
simulated ids / hash-randomised strings, insertion order of vertices and adjacency sets); the
decomposition returned differs per presentation and must be valid -- and optimal for the exact methods --
in each."""
import copy
import json
import sys

from ..rng import Stream
from ..core import Violation, Log, import_repo
from ..env import Env
from ..shrink import list_reductions
from ..ref import treewidth_ref as TW

RULE = {'C10': 'seeded simple graphs (<=8 vertices quick, <=9 thorough: empty, isolated vertices, several components, cliques, trees, grids, cycles, random) '
               'x >=4 presentations x {min_fill, quickbb, acb} + bound helpers; non-trivial: >=4 vertices and >=3 edges; distinct = distinct '
               '(edge set, presentations) digests'}
DISTINCT = 'distinct (graph, presentation set) pairs; also counted: distinct decompositions per graph'
SIMULATED = ['vertex identity/hash (ints, strings, Node objects with simulated ids)', 'insertion order of vertices and adjacency sets']
ORACLES = ['tree-decomposition validity checker', 'subset-DP treewidth', 'independent elimination-order width']
ASSUMPTIONS = ['arguments are passed as copies (the shipped functions eliminate in place; the property does not forbid it)']


def plan(prop, tier):
    if tier == 'quick':
        return {'runs': 3000, 'cap': 60.0, 'det_runs': 30, 'legs': [{'hashseed': h} for h in (0, 1, 2, 3)]}
    return {'cap': 120.0, 'budget_s': 900, 'legs': [{'hashseed': h} for h in (0, 1, 2, 3, 4, 5, 6, 7)]}


def hard_graph(g, nmax):
    """graphs (found by search) on which the min_fill heuristic is not optimal, randomly relabelled"""
    import os
    H = json.load(open(os.path.join(os.path.dirname(os.path.dirname(os.path.abspath(__file__))), 'gen', 'hard_graphs.json')))
    pool = [(int(n), e) for n, es in H.items() if int(n) <= nmax for e in es]
    n, edges = pool[g.randrange(len(pool))]
    perm = g.perm(n)
    return n, sorted((min(perm[u], perm[v]), max(perm[u], perm[v])) for u, v in edges)


def gen_graph(g, nmax):
    if nmax >= 7 and g.random() < 0.1:
        return hard_graph(g, nmax)
    kind = g.choice(['random', 'random', 'random', 'tree', 'cycle', 'grid', 'clique', 'components', 'isolated', 'empty', 'ktree'])
    n = g.randrange(0, nmax + 1) if kind != 'empty' else 0
    edges = set()
    if kind == 'random':
        p = g.choice([0.2, 0.35, 0.5, 0.7])
        edges = {(u, v) for u in range(n) for v in range(u + 1, n) if g.random() < p}
    elif kind == 'tree':
        for v in range(1, n):
            edges.add((g.randrange(v), v))
    elif kind == 'cycle':
        for v in range(n):
            if n >= 3:
                edges.add((min(v, (v + 1) % n), max(v, (v + 1) % n)))
        for _ in range(g.randrange(0, 3)):
            if n >= 4:
                a, b = g.sample(range(n), 2)
                edges.add((min(a, b), max(a, b)))
    elif kind == 'grid':
        w = g.choice([2, 3])
        h = max(1, n // w)
        n = w * h
        for i in range(h):
            for j in range(w):
                if j + 1 < w:
                    edges.add((i * w + j, i * w + j + 1))
                if i + 1 < h:
                    edges.add((i * w + j, (i + 1) * w + j))
    elif kind == 'clique':
        edges = {(u, v) for u in range(n) for v in range(u + 1, n)}
        for _ in range(g.randrange(0, 3)):
            if edges:
                edges.discard(g.choice(sorted(edges)))
    elif kind == 'components':
        cut = g.randrange(0, n + 1)
        for lo, hi in ((0, cut), (cut, n)):
            for u in range(lo, hi):
                for v in range(u + 1, hi):
                    if g.random() < 0.5:
                        edges.add((u, v))
    elif kind == 'isolated':
        m = max(0, n - g.randrange(1, 3))
        edges = {(u, v) for u in range(m) for v in range(u + 1, m) if g.random() < 0.5}
    elif kind == 'ktree':
        k = g.choice([1, 2, 3])
        for v in range(n):
            if v <= k:
                for u in range(v):
                    edges.add((u, v))
            else:
                cl = g.sample(range(v), k)
                # attach to a clique: pick a vertex and k-1 of its earlier neighbours if possible
                for u in cl:
                    edges.add((min(u, v), max(u, v)))
    return n, sorted(edges)


def generate(prop, seed, tier):
    g = Stream(seed, 'gen')
    n, edges = gen_graph(g, 8 if tier == 'quick' else 9)
    g2 = Stream(seed, 'gen-big')
    if g2.random() < 0.04:
        # 10- and 11-vertex graphs on which min_fill is not optimal and minor-min-width is not tight: quickbb has to
        # complete an order that improves on the heuristic (its leaf bookkeeping runs), relabelled at random
        n, edges = hard_graph(g2, 11)
        while n < 10:
            n, edges = hard_graph(g2, 11)
    pres = []
    for _ in range(g.randrange(3, 6)):
        pres.append({'naming': g.choice(['int', 'str', 'node', 'node', 'intperm']), 'vorder': g.perm(n), 'seed': g.randrange(1 << 30)})
    # other graphs over the same vertex objects, decomposed earlier in the same run (state must not leak between calls)
    prior = []
    for _ in range(g.randrange(0, 3)):
        es = {tuple(e) for e in edges}
        for _ in range(g.randrange(1, 6)):
            if n >= 2:
                a, b = g.sample(range(n), 2)
                e = (min(a, b), max(a, b))
                if g.random() < 0.7:
                    es.add(e)
                else:
                    es.discard(e)
        prior.append(sorted(list(e) for e in es))
    return {'engine': 'treedec', 'prop': prop, 'seed': seed, 'n': n, 'edges': [list(e) for e in edges], 'pres': pres,
            'methods': ['min_fill', 'quickbb', 'acb'], 'prior': prior}


def reducers(case):
    yield from list_reductions(case, ['pres'], min_len=1)
    yield from list_reductions(case, ['prior'])
    yield from list_reductions(case, ['methods'], min_len=1)
    yield from list_reductions(case, ['edges'])
    if case['n'] > 0:
        used = {x for e in case['edges'] for x in e}
        for v in range(case['n'] - 1, -1, -1):
            if v not in used:
                c = copy.deepcopy(case)
                c['n'] -= 1
                c['edges'] = [[a - (a > v), b - (b > v)] for a, b in c['edges']]
                for p in c['pres']:
                    p['vorder'] = [x - (x > v) for x in p['vorder'] if x != v]
                c['prior'] = []
                yield c
                break


def describe(case):
    return {'n': case['n'], 'edges': case['edges'], 'pres': [[p['naming'], p['vorder']] for p in case['pres']], 'methods': case['methods']}


def V(clause, feats, detail):
    raise Violation('C10', clause, feats, detail)


def present(F, case, p):
    """returns (graph dict, names list) for presentation p"""
    n = case['n']
    r = Stream(p['seed'], 'pres')
    if p['naming'] == 'int':
        names = list(range(n))
    elif p['naming'] == 'intperm':
        names = r.sample(range(100), n)
    elif p['naming'] == 'str':
        names = ['%s%d' % (r.choice('abcxyz'), r.randrange(1000)) + '_' + str(i) for i in range(n)]
    else:
        nl = [F.NodeLabel('A'), F.NodeLabel('B')]
        names = [F.Node(nl[i % 2], id=None if r.random() < 0.7 else 'v%d' % i) for i in range(n)]
    graph = {}
    for v in p['vorder']:
        graph[names[v]] = set()
    es = [tuple(e) for e in case['edges']]
    r.shuffle(es)
    for u, v in es:
        graph[names[u]].add(names[v])
        graph[names[v]].add(names[u])
    return graph, names


def execute(case):
    F = import_repo()
    FZ = sys.modules['fggs.factorize']
    log = Log(keep=False)
    viol = []
    counters = {}
    n = case['n']
    edges = [tuple(e) for e in case['edges']]
    tw = TW.treewidth(n, edges) if n else 0
    decs = {m: set() for m in case['methods']}
    try:
        with Env({'alloc': {'mode': 'order', 'seed': case['seed']}}) as env:
            c = env.c
            for pi, p in enumerate(case['pres']):
                graph, names = present(F, case, p)
                inv = {names[i]: i for i in range(n)}
                cp = lambda: {u: set(vs) for u, vs in graph.items()}
                for pe in case.get('prior', []):
                    pg = {names[v]: set() for v in p['vorder']}
                    for u, v in pe:
                        pg[names[u]].add(names[v])
                        pg[names[v]].add(names[u])
                    for m in case['methods']:
                        try:
                            FZ.tree_decomposition({u: set(vs) for u, vs in pg.items()}, method=m)
                        except Exception:
                            pass        # judged when it is the main graph of some run
                    c.inc('probe.prior-graph-decomposed')
                for m in case['methods']:
                    try:
                        td = FZ.tree_decomposition(cp(), method=m)
                    except Exception as ex:
                        V('raised', [m, type(ex).__name__], f'tree_decomposition(method={m}) raised {type(ex).__name__}: {ex}; n={n} edges={edges}')
                    c.inc('decompositions.' + m)
                    try:
                        tdi = {frozenset(inv[v] for v in b): {frozenset(inv[v] for v in nb) for nb in nbs} for b, nbs in td.items()}
                    except KeyError as ex:
                        V('validity', [m, 'foreign-vertex'], f'bag contains {ex}')
                    bad = TW.check_decomposition(tdi, range(n), edges)
                    if bad:
                        V('validity', [m, bad[0][0]], f'{bad[0][1]}; n={n} edges={edges} bags={[sorted(b) for b in tdi]}')
                    w = TW.width(tdi) if n else TW.width(tdi)
                    if m in ('acb', 'quickbb') and n > 0 and w != tw:
                        V('optimality', [m], f'width {w}, treewidth {tw}; n={n} edges={edges} bags={[sorted(b) for b in tdi]}')
                    if w < tw and n > 0:
                        raise RuntimeError(f'reference treewidth {tw} > valid decomposition of width {w}')
                    decs[m].add(json.dumps(sorted(sorted(b) for b in tdi)))
                    log.add(pi, m, sorted(sorted(b) for b in tdi))
                # helpers
                w, order = FZ.min_fill(cp())
                c.inc('helpers.min_fill')
                if sorted(inv[v] for v in order) != list(range(n)):
                    V('min_fill', ['order-not-a-permutation'], f'{[inv.get(v) for v in order]}')
                ow = TW.order_width(n, edges, [inv[v] for v in order])
                if w != ow:
                    V('min_fill', ['reported-width'], f'reports width {w}, its order has width {ow}; n={n} edges={edges}')
                if n > 0:
                    ub, order2 = FZ.quickbb(cp())
                    if sorted(inv[v] for v in order2) != list(range(n)):
                        V('quickbb', ['order-not-a-permutation'], f'{[inv.get(v) for v in order2]}')
                    ow2 = TW.order_width(n, edges, [inv[v] for v in order2])
                    if ub != tw or ow2 != ub:
                        V('quickbb', ['width'], f'quickbb reports {ub}, its order has width {ow2}, treewidth {tw}; n={n} edges={edges}')
                    lb = FZ.lower_bound(cp())
                    ubw, _ = FZ.upper_bound(cp())
                    c.inc('helpers.bounds')
                    if not (lb <= tw <= ubw):
                        V('bounds', ['lower' if lb > tw else 'upper'], f'lower {lb}, treewidth {tw}, upper {ubw}; n={n} edges={edges}')
            for m in decs:
                c.inc('probe.graphs-with->1-distinct-decomposition.' + m, 1 if len(decs[m]) > 1 else 0)
            counters = dict(c)
    except Violation as v:
        viol.append(v.to_json())
    import hashlib
    shape = hashlib.sha256(json.dumps([n, case['edges'], [[p['naming'], p['vorder']] for p in case['pres']]]).encode()).hexdigest()[:16]
    return {'violations': viol, 'counters': counters, 'digest': log.digest(), 'shape': shape,
            'steps': len(case['pres']) * len(case['methods']), 'nontrivial': n >= 4 and len(edges) >= 3}
