"""WIRE engine (C14): a JSON writer and a JSON reader that live in different environments
(different id allocators / address spaces, different construction histories), the *text*
travelling between them, with index corruption of the document as the injected fault."""
import copy
import json

import torch

from ..rng import Stream
from ..core import Violation, Discard, Log, import_repo
from ..env import Env, recorded_warnings
from ..shrink import list_reductions
from ..gen import grammars as G
from ..gen import patterns as P
from ..ref import grammar_ref as GR
from ..ref import tensor_ref as TR
from ..ref import iso
from .. import build

RULE = {'C14': 'seeded FGG/HRG (implicit, explicit and mixed ids; finite and range domains; dense and patterned weights incl. inf; '
               'unused labels) written in one simulated environment, read back in another; optional corruption of one attachment/'
               'external number; plus patterned weight specifications for json_to_weights. non-trivial: >=2 rules or a patterned '
               'weight or a corruption; distinct = distinct documents (sha of the JSON text + corruption + weight specs)'}
DISTINCT = 'distinct JSON documents exchanged (text digest), corruptions and weight specifications'
SIMULATED = ['id allocator of the writer and of the reader (different seeds/modes: addresses differ between interpreters)',
             'construction history of the written grammar', 'document corruption (attachment/external numbers)']
ORACLES = ['VF2 isomorphism of rules with externals and explicit ids', 'dense equality of weights', 'independent evaluator of patterned weight specs',
           'sum-product of writer-side and reader-side grammar']
ASSUMPTIONS = ['float weights only (JSON has no bool/int tensor type)', 'sum-product compared for non-recursive / linearly recursive grammars']


def plan(prop, tier):
    if tier == 'quick':
        return {'runs': 3000, 'cap': 120.0, 'det_runs': 40, 'legs': [{'hashseed': h} for h in (0, 1, 2, 3)]}
    return {'cap': 240.0, 'budget_s': 900, 'legs': [{'hashseed': h} for h in (0, 1, 2, 3)]}


def generate(prop, seed, tier):
    g = Stream(seed, 'gen')
    ids = g.choice(['mixed', 'mixed', 'none', 'all'])
    spec = G.gen_spec(g, recursion=g.choice(['none', 'none', 'linear']), weights=g.choice(['prob', 'grid', 'inf', 'zeros']),
                      explicit_ids=ids, max_nodes=4, max_edges=4, repeat_ext=True)
    # some terminals get a patterned weight
    for n, t in spec['terms'].items():
        if g.random() < 0.4:
            shape = G.sizes_of(spec, t['type'])
            pat = P.gen_pattern(g, shape, values='real', default_menu=(0.0, 0.0, 1.0, float('inf')))
            dense, mult = TR.dense_of_spec(pat, torch.float64)
            t['pattern'] = pat
            t['weights'] = dense.tolist()
    pres = build.random_presentation(spec, g, allow_rename=False, allow_domperm=False, via=('api',))
    pres['ids'] = 'spec'
    pres['late_start'] = len(spec['nts']) >= 2 and g.random() < 0.4
    corrupt = None
    if g.random() < 0.45:
        corrupt = {'rule': g.randrange(64), 'where': g.choice(['att', 'att', 'ext']), 'edge': g.randrange(64), 'pos': g.randrange(64),
                   'kind': g.choice(['len', 'len+k', '-1', '-len', '-len-1'])}
    wspecs = []
    for _ in range(g.randrange(0, 4)):
        shape = [g.randrange(1, 5) for _ in range(g.randrange(0, 4))]
        wspecs.append(P.gen_pattern(g, shape, values=g.choice(['real', 'any', 'log', 'intlit']),
                                    default_menu=(0.0, 0.0, 1.0, float('inf'), float('-inf'), -2.5), dense_p=0.1))
    return {'engine': 'wire', 'prop': prop, 'seed': seed, 'spec': spec, 'pres': pres, 'interp': g.random() < 0.75,
            'writer': {'alloc': {'mode': g.choice(['order', 'reuse', 'seq']), 'seed': seed * 2 + 1}, 'dtype': g.choice(['float64', 'float64', 'float32'])},
            'reader': {'alloc': {'mode': g.choice(['order', 'seq']), 'seed': seed * 2 + 2}},
            'corrupt': corrupt, 'wspecs': wspecs, 'rewrite': g.randrange(1, 1 << 30) if g.random() < 0.3 else None,
            # a real second interpreter as the reader (real addresses as ids, another PYTHONHASHSEED)
            'reader_proc': {'hashseed': g.randrange(1, 1000)} if g.random() < (0.01 if tier == 'quick' else 0.04) else None}


def reducers(case):
    yield from list_reductions(case, ['wspecs'])
    yield from list_reductions(case, ['spec', 'rules'], min_len=1)
    if case.get('corrupt'):
        c = copy.deepcopy(case)
        c['corrupt'] = None
        yield c
    if case.get('reader_proc'):
        c = copy.deepcopy(case)
        c['reader_proc'] = None
        yield c
    if case.get('rewrite'):
        c = copy.deepcopy(case)
        c['rewrite'] = None
        yield c
    for n, t in case['spec']['terms'].items():
        if t.get('pattern') is not None:
            c = copy.deepcopy(case)
            c['spec']['terms'][n]['pattern'] = None
            yield c
    for ri, r in enumerate(case['spec']['rules']):
        for ei in range(len(r['edges'])):
            c = copy.deepcopy(case)
            del c['spec']['rules'][ri]['edges'][ei]
            c['pres'] = None
            yield c
    if case.get('pres') is not None:
        c = copy.deepcopy(case)
        c['pres'] = None
        yield c


def describe(case):
    return {'rules': [[r['lhs'], [(n['label'], n.get('id')) for n in r['nodes']], [(e['label'], e['att'], e.get('id')) for e in r['edges']], r['ext']]
                      for r in case['spec']['rules']],
            'patterned': [n for n, t in case['spec']['terms'].items() if t.get('pattern')], 'corrupt': case['corrupt'],
            'wspecs': case['wspecs'][:2], 'writer': case['writer'], 'reader': case['reader']}


def V(clause, feats, detail):
    raise Violation('C14', clause, feats, detail)


def lab_key(el):
    return (el.name, tuple(l.name for l in el.type), el.is_terminal)


def rule_incidence(rule):
    g = rule.rhs
    nodes = {n.id: (n.label.name, n.id if n.persist_id else None) for n in g.nodes()}
    edges = [((lab_key(e.label), e.id if e.persist_id else None), [v.id for v in e.nodes]) for e in g.edges()]
    return iso.incidence(nodes, edges, [v.id for v in g.ext])


def compare_grammars(g1, g2, interp, counters):
    if lab_key(g1.start) != lab_key(g2.start):
        V('roundtrip', ['start'], f'start {lab_key(g1.start)} became {lab_key(g2.start)}')
    l1 = sorted(map(lab_key, g1.edge_labels()))
    l2 = sorted(map(lab_key, g2.edge_labels()))
    if l1 != l2:
        V('roundtrip', ['edge-labels'], f'edge labels {l1} became {l2}')
    n1 = sorted(nl.name for nl in g1.node_labels())
    n2 = sorted(nl.name for nl in g2.node_labels())
    if n1 != n2:
        V('roundtrip', ['node-labels'], f'node labels {n1} became {n2}')
    for nt in g1.nonterminals():
        r1 = g1.rules(nt)
        r2 = g2.rules(g2.get_edge_label(nt.name))
        if len(r1) != len(r2):
            V('roundtrip', ['rule-count'], f'{nt.name}: {len(r1)} rules became {len(r2)}')
        for k, (a, b) in enumerate(zip(r1, r2)):
            if lab_key(a.lhs) != lab_key(b.lhs):
                V('roundtrip', ['lhs'], f'{nt.name} rule {k}')
            if len(a.rhs.ext) != len(b.rhs.ext) or [v.label.name for v in a.rhs.ext] != [v.label.name for v in b.rhs.ext]:
                V('roundtrip', ['externals'], f'{nt.name} rule {k}: externals changed')
            if not iso.isomorphic(rule_incidence(a), rule_incidence(b)):
                V('roundtrip', ['rule-not-isomorphic'], f'{nt.name} rule {k} is not isomorphic to what was written (nodes/edges/attachment order/externals/explicit ids)')
            counters.inc('rules.compared')
    if interp:
        if list(g1.domains.keys()) != list(g2.domains.keys()) and sorted(g1.domains) != sorted(g2.domains):
            V('roundtrip', ['domains-keys'], f'{sorted(g1.domains)} became {sorted(g2.domains)}')
        for k, d in g1.domains.items():
            d2 = g2.domains[k]
            if type(d) is not type(d2) or d != d2:
                V('roundtrip', ['domain'], f'domain of {k} changed')
        if sorted(g1.factors) != sorted(g2.factors):
            V('roundtrip', ['factors-keys'], f'{sorted(g1.factors)} became {sorted(g2.factors)}')
        for k, f in g1.factors.items():
            f2 = g2.factors[k]
            a, b = f.weights.to_dense(), f2.weights.to_dense()
            if a.shape != b.shape or not torch.equal(a.to(torch.float64), b.to(torch.float64)):
                V('roundtrip', ['weights', 'patterned' if len(f.weights.paxes) != a.ndim or any(not hasattr(e, '_numel') for e in f.weights.vaxes) else 'dense'],
                  f'weights of {k}: {a.tolist()} became {b.tolist()}')
            if [type(x) for x in f.domains] != [type(x) for x in f2.domains] or tuple(f.domains) != tuple(f2.domains):
                V('roundtrip', ['factor-domains'], f'domains of factor {k} changed')


def corrupt_doc(j, c, counters):
    rules = j['grammar']['rules'] if 'grammar' in j else j['rules']
    if not rules:
        return None
    r = rules[c['rule'] % len(rules)]['rhs']
    n = len(r['nodes'])
    val = {'len': n, 'len+k': n + 1 + c['pos'] % 3, '-1': -1, '-len': -n, '-len-1': -n - 1}[c['kind']]
    if c['kind'] in ('-1', '-len') and n == 0:
        val = -1
    if c['where'] == 'att':
        es = [e for e in r['edges'] if e['attachments']]
        if not es:
            if not r.get('externals'):
                return None
            r['externals'][c['pos'] % len(r['externals'])] = val
        else:
            e = es[c['edge'] % len(es)]
            e['attachments'][c['pos'] % len(e['attachments'])] = val
    else:
        if not r.get('externals'):
            es = [e for e in r['edges'] if e['attachments']]
            if not es:
                return None
            e = es[c['edge'] % len(es)]
            e['attachments'][c['pos'] % len(e['attachments'])] = val
        else:
            r['externals'][c['pos'] % len(r['externals'])] = val
    counters.inc('fault.doc-corrupt.fired')
    counters.inc('fault.doc-corrupt.' + ('negative' if val < 0 else 'too-large'))
    return ('negative' if val < 0 else 'too-large')


CHILD = r'''
import sys, json
sys.path.insert(0, sys.argv[1])
import torch, fggs
torch.set_num_threads(1)
torch.set_default_dtype(getattr(torch, sys.argv[2]))
interp = sys.argv[3] == '1'
j = json.loads(sys.stdin.read())
g = fggs.json_to_fgg(j) if interp else fggs.json_to_hrg(j)
out = {'doc': fggs.fgg_to_json(g) if interp else fggs.hrg_to_json(g)}
print(json.dumps(out))
'''


def second_interpreter(case, text, interp):
    import os
    import subprocess
    import sys
    from ..core import REPO
    env = {k: v for k, v in os.environ.items() if k != 'FGGS_VERIF'}
    env['PYTHONHASHSEED'] = str(case['reader_proc']['hashseed'])
    env['OMP_NUM_THREADS'] = '1'
    p = subprocess.run([sys.executable, '-c', CHILD, REPO, case['writer'].get('dtype', 'float64'), '1' if interp else '0'],
                       input=text, capture_output=True, text=True, env=env, timeout=120)
    return p.returncode, p.stdout, p.stderr


def execute(case):
    F = import_repo()
    log = Log(keep=False)
    viol = []
    allc = {}
    spec = case['spec']
    interp = case['interp']
    nontrivial = False
    text = ''
    try:
        with Env({**case['writer']}) as wenv:
            pres = case.get('pres') or build.identity_presentation(spec)
            B = build.build(spec, pres, interp=interp)
            g1 = B.fgg
            try:
                j = F.fgg_to_json(g1) if interp else F.hrg_to_json(g1)
                text = json.dumps(j)
            except Exception as ex:
                V('dumps', [type(ex).__name__], f'fgg_to_json/json.dumps failed: {type(ex).__name__}: {ex}')
            log.add('text', text)
            wenv.c.inc('documents.written')
            if getattr(B, 'patterned', 0):
                wenv.c.inc('probe.patterned-weights', B.patterned)
            mixed = any(n.get('id') for r in spec['rules'] for n in r['nodes']) and any(not n.get('id') for r in spec['rules'] for n in r['nodes'])
            if mixed:
                wenv.c.inc('probe.mixed-ids')
            # ---- reader environment: another allocator (another "interpreter")
            with Env({**case['reader'], 'dtype': case['writer'].get('dtype', 'float64')}) as renv:
                j2 = json.loads(text)
                try:
                    g2 = F.json_to_fgg(j2) if interp else F.json_to_hrg(j2)
                except Exception as ex:
                    V('roundtrip', ['reader-raised', type(ex).__name__], f'reading back the written document failed: {type(ex).__name__}: {ex}')
                compare_grammars(g1, g2, interp, wenv.c)
                # second round trip reproduces the text when all ids are explicit
                all_explicit = all(n.get('id') for r in spec['rules'] for n in r['nodes']) and all(e.get('id') for r in spec['rules'] for e in r['edges'])
                text2 = json.dumps(F.fgg_to_json(g2) if interp else F.hrg_to_json(g2))
                if all_explicit:
                    wenv.c.inc('probe.all-explicit-verbatim')
                    # JSON objects are unordered: compare the documents as objects (lists keep their order)
                    if json.loads(text2) != json.loads(text):
                        V('verbatim', ['all-explicit'], f'second round trip changed the JSON document:\n{text}\n{text2}')
                else:
                    g3 = (F.json_to_fgg if interp else F.json_to_hrg)(json.loads(text2))
                    compare_grammars(g1, g3, interp, wenv.c)
                # same sum-product: the reader's grammar against the reference semantics of what was written
                # (not against the writer-side patterned tensors: an FGG whose factor axes carry different index
                #  types for one node label is outside the typing precondition of the patterned einsum, C07)
                if interp and all(G.dom_size(d) > 0 for d in spec['domains'].values()):
                    ref = GR.GrammarRef(spec, 'real')
                    x, steps, conv = ref.lfp(400)
                    want = torch.tensor(x[spec['start']], dtype=torch.float64)
                    if conv and bool(torch.isfinite(want).all()):
                        f32 = case['writer'].get('dtype') == 'float32'
                        try:
                            with recorded_warnings():
                                z2 = F.sum_product(g2, method='fixed-point', kmax=2000, tol=1e-7 if f32 else 1e-13).to_dense().to(torch.float64)
                        except Exception as ex:
                            V('roundtrip', ['sum-product-raised', type(ex).__name__], f'sum_product of the re-read grammar raised {type(ex).__name__}: {ex}')
                        wenv.c.inc('sum_product.compared')
                        tol = (1e-3 if f32 else 1e-8) * (1 if steps <= 3 else 100)
                        if z2.shape != want.shape or not torch.allclose(z2, want, rtol=tol, atol=tol * 1e-3):
                            V('roundtrip', ['sum-product'], f'sum-product of the re-read grammar {z2.tolist()} != reference {want.tolist()}')
                        log.add('z', [round(v, 6) for v in want.flatten().tolist()])
                # ---- the same document read and re-written by a real second interpreter
                if case.get('reader_proc'):
                    rc, out, err = second_interpreter(case, text, interp)
                    wenv.c.inc('probe.second-interpreter')
                    if rc != 0:
                        V('roundtrip', ['second-interpreter', 'reader-failed'], f'a fresh interpreter failed to read the document: {err[-400:]}')
                    doc = json.loads(out.strip().splitlines()[-1])['doc']
                    g4 = (F.json_to_fgg if interp else F.json_to_hrg)(doc)
                    compare_grammars(g1, g4, interp, wenv.c)
                    log.add('second-interpreter', 'ok')
                # ---- fault: corrupted document must be rejected with ValueError
                if case.get('corrupt'):
                    jc = json.loads(text)
                    kind = corrupt_doc(jc, case['corrupt'], wenv.c)
                    if kind is not None:
                        nontrivial = True
                        try:
                            (F.json_to_fgg if interp else F.json_to_hrg)(jc)
                            raised = None
                        except ValueError as ex:
                            raised = ex
                        except Exception as ex:
                            V('corrupt-index', [kind, 'other-exception', type(ex).__name__], f'corrupted node number: {type(ex).__name__}: {ex}')
                        if raised is None:
                            V('corrupt-index', [kind, 'accepted'], f'document with an out-of-range ({kind}) attachment/external node number was accepted')
                        log.add('corrupt', kind)
                for k, v in renv.c.items():
                    allc['reader.' + k] = allc.get('reader.' + k, 0) + v
            # ---- writer history: the same grammar object is saved again after its weights were updated in place
            if interp and case.get('rewrite') and g1.factors:
                rw = Stream(case['rewrite'], 'rewrite')
                names = sorted(g1.factors)
                changed = 0
                for nm in names:
                    ph = g1.factors[nm].weights.physical
                    if ph.numel() == 0 or any(st == 0 for st in ph.stride()) or not ph.dtype.is_floating_point or rw.random() < 0.4:
                        continue
                    if rw.random() < 0.5:
                        ph.mul_(0.5)
                    else:
                        ph.view(-1)[rw.randrange(ph.numel())] = rw.choice([float('inf'), 0.0, 3.25]) if ph.is_contiguous() else 3.25
                    changed += 1
                if changed:
                    wenv.c.inc('probe.rewrite-after-inplace-update')
                    try:
                        text5 = json.dumps(F.fgg_to_json(g1))
                    except Exception as ex:
                        V('dumps', ['rewrite', type(ex).__name__], f'second fgg_to_json of the same object failed: {type(ex).__name__}: {ex}')
                    with Env({**case['reader'], 'dtype': case['writer'].get('dtype', 'float64')}):
                        try:
                            g5 = F.json_to_fgg(json.loads(text5))
                        except Exception as ex:
                            V('roundtrip', ['rewrite', 'reader-raised', type(ex).__name__], f'reading back the second document failed: {type(ex).__name__}: {ex}')
                        compare_grammars(g1, g5, interp, wenv.c)
                    log.add('rewrite', changed)
            # ---- json_to_weights of patterned specifications
            for ws in case['wspecs']:
                dt = getattr(torch, case['writer'].get('dtype', 'float64'))
                want, mult = TR.dense_of_spec(ws, dt)
                try:
                    with recorded_warnings():
                        got = F.json_to_weights(json.loads(json.dumps(ws)))
                        gd = got.to_dense()
                except Exception as ex:
                    V('json_to_weights', ['raised', type(ex).__name__], f'{json.dumps(ws)}: {type(ex).__name__}: {ex}')
                wenv.c.inc('wspecs.checked')
                nontrivial = True
                if tuple(got.shape) != tuple(want.shape) or gd.shape != want.shape or not torch.equal(gd, want):
                    V('json_to_weights', ['denotation'], f'{json.dumps(ws)} denotes {want.tolist()}, got {gd.tolist()}')
                log.add('w', gd.tolist())
            for k, v in wenv.c.items():
                allc[k] = allc.get(k, 0) + v
    except Violation as v:
        viol.append(v.to_json())
    import hashlib
    shape = hashlib.sha256((text + json.dumps([case['corrupt'], case['wspecs']])).encode()).hexdigest()[:16]
    nontrivial = nontrivial or len(spec['rules']) >= 2
    return {'violations': viol, 'counters': allc, 'digest': log.digest(), 'shape': shape, 'steps': 3 + len(case['wspecs']),
            'nontrivial': nontrivial}
