"""LINSOLVE engine (C09): Semiring.solve, PatternedTensor.solve, multi_solve (+- transpose) and multi_mv,
with the failing sub-call (torch.linalg.solve -> fallback) as the injected fault, elimination order decided by
key insertion order / hash order, and bitwise snapshots of the caller's arguments."""
import copy
import json
import sys

import numpy as np
import torch

from ..rng import Stream
from ..core import Violation, Discard, Log, import_repo
from ..env import Env, recorded_warnings
from ..shrink import list_reductions
from ..ref import solve_ref as SR
from ..ref import tensor_ref as TR

RULE = {'C09': 'seeded linear systems over the four semirings: dense Semiring.solve (n<=14, 1- and 2-d b), PatternedTensor.solve with typed '
               'patterns (sum/product/diagonal/stride-0), block systems for multi_solve/multi_mv (1-4 keys, absent blocks, scalar and '
               'multi-dimensional block shapes, transpose), spectral radius <1, =1 (exact cycles), >1, infinite entries; each with and '
               'without an injected linalg.solve failure. non-trivial: n>=2 and A has a cycle or >=2 blocks; distinct = distinct case digests'}
DISTINCT = 'distinct (system, API, semiring, fault) digests; also counted: distinct elimination orders seen through the _order_nonterminals monitor'
SIMULATED = ['torch.linalg.solve failure at the n-th call (fallback path)', 'insertion order / naming of block keys (elimination order)', 'PhysicalAxis hash order']
ORACLES = ['structural least-solution reference (SCCs + spectral radius + infinity propagation; exact in Bool/Viterbi)', 'dense matrix-vector product', 'bitwise argument snapshots']
ASSUMPTIONS = ['instances with an SCC of spectral radius in (0.97,1.03) (other than exact weight-one cycles) or cond(I-A)>1e7 are discarded',
               'only elimination orders the shipped heuristic itself produces are explored']

SEMS = ['real', 'log', 'viterbi', 'bool']


def plan(prop, tier):
    if tier == 'quick':
        return {'runs': 4000, 'cap': 30.0, 'det_runs': 40, 'legs': [{'hashseed': h} for h in (0, 1, 2, 3)]}
    return {'cap': 60.0, 'budget_s': 900, 'legs': [{'hashseed': h} for h in (0, 1, 2, 3, 4, 5, 6, 7)]}


def gen_matrix(g, n, m, regime):
    """real-semiring entries of an n x m block; regime: 'small' 'mixed' 'big' 'inf' 'cycle'"""
    out = []
    for i in range(n):
        row = []
        for j in range(m):
            r = g.random()
            if r < 0.45:
                v = 0.0
            elif regime == 'small':
                v = round(g.random() * 0.6 / max(1, m), 4)
            elif regime == 'big':
                v = round(0.5 + g.random() * 2, 3)
            elif regime == 'inf' and r > 0.92:
                v = float('inf')
            else:
                v = g.choice([0.25, 0.5, 0.125, round(g.random() * 0.5, 3)])
            row.append(v)
        out.append(row)
    return out


def generate(prop, seed, tier):
    g = Stream(seed, 'gen')
    api = g.choice(['semiring', 'semiring', 'patterned', 'patterned', 'multi_solve', 'multi_solve', 'multi_mv'])
    sem = g.choice(SEMS)
    regime = g.choice(['small', 'small', 'mixed', 'big', 'inf', 'cycle', 'near-one'])
    case = {'engine': 'linsolve', 'prop': prop, 'seed': seed, 'api': api, 'semiring': sem, 'regime': regime,
            'linalg_fail': g.choice([None, None, ['all'], [1], [2]]) if sem == 'real' else None,
            'dtype': 'float64', 'axhash': g.randrange(1 << 30)}
    if api == 'semiring':
        n = g.choice([1, 2, 3, 4, 5, 11, 14]) if g.random() < 0.8 else g.randrange(1, 15)
        A = gen_matrix(g, n, n, regime)
        if regime == 'cycle':
            A = [[0.0] * n for _ in range(n)]
            perm = g.perm(n)
            w = g.choice([1.0, 1.0, 0.5, 2.0])
            for i in range(n):
                A[perm[i]][perm[(i + 1) % n]] = w if i == 0 else 1.0
        if regime == 'near-one':
            # diagonal systems with entries 1 - 2^-k (exactly representable): x = 2^k b, an exact reference near the
            # radius of convergence
            n = g.choice([1, 1, 2, 3])
            ks = [g.randrange(10, 46) for _ in range(n)]
            A = [[(1.0 - 2.0 ** -ks[i]) if i == j else 0.0 for j in range(n)] for i in range(n)]
            case['near_one_k'] = ks
            case['near_one_m'] = [g.randrange(6, 15) for _ in range(n)]    # Log semiring: diagonal log-weights -10^-m
        k = g.choice([None, None, 1, 2, 3])
        b = gen_matrix(g, n, k or 1, 'mixed')
        if regime == 'cycle' and g.random() < 0.5:
            # a single source: everything else is reached only through the whole chain
            src = g.randrange(n)
            b = [[(v if v else 0.5) if i == src else 0.0 for v in r] for i, r in enumerate(b)]
        if g.random() < 0.2:
            b = [[0.0] * len(r) for r in b]
        elif g.random() < 0.25:
            sc = g.choice([1e-7, 1e-9, 1e-12])      # tiny but non-zero inputs: divergence must still be reported
            b = [[v * sc for v in r] for r in b]
        case.update({'A': A, 'b': b if k else [r[0] for r in b]})
    elif api == 'patterned':
        # index type T = factor x factor, factor = atom(n) | sum(m1, m2)
        facs = []
        tot = 1
        if g.random() < 0.45:
            # equal factors: lets a's columns be a rotation of its rows (the solution's pattern then grows over several steps)
            f = g.choice([['atom', 2], ['sum', 1, 1]])
            facs = [list(f) for _ in range(g.choice([2, 3]))]
            tot = 2 ** len(facs)
        for _ in range(g.randrange(1, 3) if not facs else 0):
            if g.random() < 0.5:
                f = ['atom', g.randrange(1, 4)]
                sz = f[1]
            else:
                f = ['sum', g.randrange(1, 3), g.randrange(1, 3)]
                sz = f[1] + f[2]
            if tot * sz <= 12:
                facs.append(f)
                tot *= sz
        if not facs:
            facs = [['atom', 2]]
        case['T'] = facs
        f_ = 2
        case['pat'] = {'a_row': [g.randrange(4) for _ in facs], 'a_col': [g.randrange(4) for _ in facs], 'b_row': [g.randrange(4) for _ in facs],
                       'a_diag': g.random() < 0.25, 'b_extra': g.choice([0, 0, 1, 2]), 'a_expand': g.random() < 0.2,
                       'a_rot': g.randrange(0, 3), 'b_shares_a_axes': g.random() < 0.25,
                       # free-form patterns over a common pool of axes: every factor is of type 1+1 and each position picks
                       # the left summand, the right summand or one of three shared physical axes of size 2
                       'freeform': ([[g.randrange(5) for _ in range(f_)] for _ in range(3)] if g.random() < 0.35 else None)}
        if case['pat']['freeform']:
            f_ = g.choice([2, 2, 3])
            case['T'] = [['sum', 1, 1] for _ in range(f_)]
            case['pat']['freeform'] = [[g.randrange(5) for _ in range(f_)] for _ in range(3)]
            if g.random() < 0.3:
                # b supported on a diagonal (one shared axis in every position), a's rows a shifted copy of its columns with one
                # position pinned: the solution's pattern has to grow over several steps, splitting the shared axis
                ax = [2, 3, 4]
                g.shuffle(ax)
                cols = [ax[i % 3] for i in range(f_)]
                rows = cols[1:] + cols[:1]
                rows[g.randrange(f_)] = g.choice([0, 1])
                if g.random() < 0.5:
                    rows, cols = cols, rows
                case['pat']['freeform'] = [rows, cols, [ax[0]] * f_]
        case['vals'] = g.randrange(1 << 30)
    else:
        nk = g.randrange(1, 5)
        keys = []
        for i in range(nk):
            kind = g.choice(['str', 'str', 'int', 'label'])
            keys.append([kind, '%s%d' % (g.choice('abxyz'), g.randrange(100)) + '_' + str(i)])
        shapes = [g.choice([[], [2], [3], [2, 2], [1], [2, 3], [11] if nk <= 2 else [2]]) for _ in keys]
        blocks = []
        for i in range(nk):
            for j in range(nk):
                if g.random() < (0.55 if i != j else 0.5):
                    ni = int(np.prod(shapes[i])) if shapes[i] else 1
                    nj = int(np.prod(shapes[j])) if shapes[j] else 1
                    diag = shapes[i] == shapes[j] and shapes[i] and g.random() < 0.3
                    blocks.append({'i': i, 'j': j, 'diag': bool(diag), 'vals': gen_matrix(g, ni, nj, regime if regime != 'cycle' else 'mixed')})
        g.shuffle(blocks)
        bvec = []
        for i in g.perm(nk):
            if g.random() < 0.7:
                ni = int(np.prod(shapes[i])) if shapes[i] else 1
                sc = g.choice([1.0, 1.0, 1.0, 1e-7, 1e-10])
                bvec.append({'i': i, 'vals': [r[0] * sc for r in gen_matrix(g, ni, 1, 'mixed')], 'expand': g.random() < 0.15})
        case.update({'keys': keys, 'shapes': shapes, 'blocks': blocks, 'bvec': bvec, 'transpose': g.random() < 0.5})
    return case


def reducers(case):
    if case.get('linalg_fail'):
        c = copy.deepcopy(case)
        c['linalg_fail'] = None
        yield c
    if case['api'] in ('multi_solve', 'multi_mv'):
        yield from list_reductions(case, ['blocks'])
        yield from list_reductions(case, ['bvec'])
        if case.get('transpose'):
            c = copy.deepcopy(case)
            c['transpose'] = False
            yield c
        for bi, b in enumerate(case['blocks']):
            if b['diag']:
                c = copy.deepcopy(case)
                c['blocks'][bi]['diag'] = False
                yield c
            for r in range(len(b['vals'])):
                for q in range(len(b['vals'][r])):
                    if b['vals'][r][q] not in (0.0, 0.5):
                        c = copy.deepcopy(case)
                        c['blocks'][bi]['vals'][r][q] = 0.0
                        yield c
    if case['api'] == 'semiring':
        n = len(case['A'])
        for i in range(n - 1, -1, -1):
            if n > 1:
                c = copy.deepcopy(case)
                c['A'] = [[v for q, v in enumerate(r) if q != i] for p, r in enumerate(c['A']) if p != i]
                c['b'] = [v for p, v in enumerate(c['b']) if p != i]
                yield c
        for i in range(n):
            for j in range(n):
                if case['A'][i][j] not in (0.0, 0.5):
                    c = copy.deepcopy(case)
                    c['A'][i][j] = 0.0 if case['A'][i][j] != float('inf') else 0.5
                    yield c


def describe(case):
    d = {k: case[k] for k in ('api', 'semiring', 'regime', 'linalg_fail') if k in case}
    for k in ('A', 'b', 'T', 'pat', 'keys', 'shapes', 'transpose'):
        if k in case:
            d[k] = case[k]
    if 'blocks' in case:
        d['blocks'] = [[b['i'], b['j'], b['diag']] for b in case['blocks']]
    return d


def V(clause, feats, detail):
    raise Violation('C09', clause, feats, detail)


def lift_np(sem, M):
    M = np.array(M, dtype=np.float64)
    if sem in ('log', 'viterbi'):
        return np.log(M)
    if sem == 'bool':
        return M > 0
    return M


def lift_t(sem, M, dtype):
    t = torch.tensor(np.array(M, dtype=np.float64))
    if sem in ('log', 'viterbi'):
        return torch.log(t).to(dtype)
    if sem == 'bool':
        return t > 0
    return t.to(dtype)


def sem_obj(name, dtype):
    S = sys.modules['fggs.semirings']
    return {'real': lambda: S.RealSemiring(dtype=dtype), 'log': lambda: S.LogSemiring(dtype=dtype),
            'viterbi': lambda: S.ViterbiSemiring(dtype=dtype), 'bool': lambda: S.BoolSemiring()}[name]()


def compare(sem, got, want, feats, what, tol=None):
    got = np.asarray(got)
    want = np.asarray(want)
    if got.shape != want.shape:
        V('shape', feats, f'{what}: shape {got.shape} expected {want.shape}')
    if sem == 'bool':
        if not np.array_equal(got.astype(bool), want.astype(bool)):
            V('least-solution', feats, f'{what}: got {got.tolist()} expected {want.tolist()}')
        return
    same = (got == want) | (np.isnan(got) & np.isnan(want))
    fin = np.isfinite(got) & np.isfinite(want)
    tol = tol or (1e-6 if sem in ('real', 'log') else 1e-9)
    close = fin & (np.abs(got - want) <= tol * np.maximum(1.0, np.maximum(np.abs(got), np.abs(want))))
    if sem == 'log':
        # a Log-semiring zero may come out as a very negative finite number only if the reference is -inf: not accepted
        pass
    ok = same | close
    if not ok.all():
        idx = np.argwhere(~ok)[0]
        kind = 'divergence' if (np.isinf(want[tuple(idx)]) or np.isinf(got[tuple(idx)])) else 'value'
        V('least-solution', feats + [kind], f'{what}: at {idx.tolist()} got {got[tuple(idx)]} expected {want[tuple(idx)]}; got={got.tolist()} want={want.tolist()}')


def tsnap(t):
    """bitwise snapshot of a torch tensor / PatternedTensor argument"""
    if hasattr(t, 'physical'):
        p = t.physical
        return ('P', p.detach().clone(), p.stride(), tuple(id(k) for k in t.paxes), repr([type(e).__name__ for e in t.vaxes]), t.default,
                p.untyped_storage().data_ptr(), bytes(p.untyped_storage()) if p.numel() < 4096 else None)
    return ('T', t.detach().clone(), t.stride(), bytes(t.untyped_storage()) if t.numel() < 4096 else None)


def same_snap(a, b):
    if a[0] != b[0]:
        return False
    if not torch.equal(a[1], b[1]) and not (a[1].dtype.is_floating_point and torch.equal(torch.nan_to_num(a[1], nan=12345.0), torch.nan_to_num(b[1], nan=12345.0))):
        return False
    return a[2:] == b[2:]


def pattern_axes(IX, T, choice, shared=None):
    """a pattern of index type T; returns (axis, list of new physical axes).  choice[k] in 0..3 per factor:
       atom: 0/1 physical; sum: 0 dense, 1 left summand, 2 right summand, 3 dense"""
    paxes = []
    fs = []
    for f, ch in zip(T, choice):
        if f[0] == 'atom':
            n = f[1]
            if n == 1:
                fs.append(IX.unitAxis)
            else:
                k = IX.PhysicalAxis(n)
                paxes.append(k)
                fs.append(k)
        else:
            m1, m2 = f[1], f[2]
            if ch in (0, 3):
                k = IX.PhysicalAxis(m1 + m2)
                paxes.append(k)
                fs.append(k)
            elif ch == 1:
                if m1 == 1:
                    t = IX.unitAxis
                else:
                    t = IX.PhysicalAxis(m1)
                    paxes.append(t)
                fs.append(IX.SumAxis(0, t, m2))
            else:
                if m2 == 1:
                    t = IX.unitAxis
                else:
                    t = IX.PhysicalAxis(m2)
                    paxes.append(t)
                fs.append(IX.SumAxis(m1, t, 0))
    return IX.productAxis(fs), paxes


def execute(case):
    F = import_repo()
    IX = sys.modules['fggs.indices']
    MU = sys.modules['fggs.multi']
    log = Log(keep=False)
    viol = []
    counters = {}
    sem = case['semiring']
    dtype = torch.float64
    feats = [case['api'], sem] + (['linalg-fail'] if case.get('linalg_fail') else [])
    nontrivial = False
    try:
        with Env({'linalg_fail': case.get('linalg_fail'), 'axhash': case['axhash'], 'dtype': 'float64'}) as env:
            c = env.c
            S = sem_obj(sem, dtype)
            if case['api'] == 'semiring':
                A, b = case['A'], case['b']
                if case.get('near_one_k') and sem in ('real', 'log'):
                    ks = case['near_one_k']
                    bb = np.array(b, dtype=np.float64)
                    scale_ = np.array([2.0 ** k for k in ks])
                    want = bb * (scale_[:, None] if bb.ndim == 2 else scale_)
                    if sem == 'log':
                        with np.errstate(divide='ignore'):
                            want = np.log(want)
                    c.inc('probe.near-one-exact')
                elif case.get('near_one_k') and sem == 'viterbi':
                    raise Discard('near-one regime is for real/log')
                else:
                    want = SR.solve(sem, lift_np(sem, A), lift_np(sem, b))
                if want is None:
                    raise Discard('too close to the radius of convergence')
                ta, tb = lift_t(sem, A, dtype), lift_t(sem, b, dtype)
                if case.get('near_one_k') and sem == 'log':
                    # generic log-weights just below 0 (not of the form log(1 - 2^-k), which would survive an exp/log round trip)
                    ms = case['near_one_m']
                    al = np.array([-(10.0 ** -m) for m in ms])
                    ta = torch.full((len(ms), len(ms)), float('-inf'), dtype=dtype)
                    for i_, v_ in enumerate(al):
                        ta[i_, i_] = v_
                    star = -np.log(-np.expm1(al))           # log 1/(1 - e^a), evaluated stably
                    bl = tb.numpy()
                    want = bl + (star[:, None] if bl.ndim == 2 else star)
                if len(A) == 0:
                    raise Discard('empty')
                sa, sb = tsnap(ta), tsnap(tb)
                with recorded_warnings():
                    try:
                        x = S.solve(ta, tb)
                    except Exception as ex:
                        V('raised', feats + [type(ex).__name__], f'Semiring.solve raised {type(ex).__name__}: {ex}')
                if not same_snap(tsnap(ta), sa) or not same_snap(tsnap(tb), sb):
                    V('arguments-modified', feats + ['a' if not same_snap(tsnap(ta), sa) else 'b'], 'Semiring.solve changed an argument')
                compare(sem, x.numpy(), want, feats + (['near-one'] if case.get('near_one_k') else []), f'A={A} b={b}',
                        tol=1e-10 if case.get('near_one_k') else None)
                nontrivial = len(A) >= 2 and any(A[i][j] for i in range(len(A)) for j in range(len(A)) if i != j)
                c.inc('solve.semiring')
                log.add('x', np.asarray(want).tolist())
            elif case['api'] == 'patterned':
                T, pat = case['T'], case['pat']
                r = Stream(case['vals'], 'vals')
                row, prow = pattern_axes(IX, T, pat['a_row'])
                same_fac = len(T) >= 2 and all(f == T[0] for f in T) and T[0] in (['atom', 2], ['sum', 1, 1])
                ff = pat.get('freeform')
                if ff and all(f == ['sum', 1, 1] for f in T) and all(len(x) == len(T) for x in ff):
                    pool = [IX.PhysicalAxis(2) for _ in range(3)]

                    def mkax(choices):
                        fs = []
                        for ch in choices:
                            fs.append(IX.SumAxis(0, IX.unitAxis, 1) if ch == 0 else IX.SumAxis(1, IX.unitAxis, 0) if ch == 1 else pool[ch - 2])
                        return IX.productAxis(fs)

                    def fvs(*axes):
                        out = []
                        for e in axes:
                            for k_ in e.fv({}):
                                if not any(k_ is o for o in out):
                                    out.append(k_)
                        return out
                    row, col = mkax(ff[0]), mkax(ff[1])
                    prow, pcol = fvs(row, col), []
                    c.inc('probe.patterned.freeform')
                elif same_fac and pat.get('a_rot'):
                    # rows X*Y*Z dense per factor, columns the same physical axes rotated: a weighted "rotation" operator
                    ks = [IX.PhysicalAxis(2) for _ in T]
                    row, prow = IX.productAxis(ks), list(ks)
                    r_ = pat['a_rot'] % len(ks)
                    col, pcol = IX.productAxis(ks[r_:] + ks[:r_]) if r_ else IX.productAxis(ks[::-1]), []
                    c.inc('probe.patterned.rotation-a')
                elif pat['a_diag'] and pat['a_row'] == pat['a_col']:
                    col, pcol = row, []
                    c.inc('probe.patterned.diagonal-a')
                else:
                    col, pcol = pattern_axes(IX, T, pat['a_col'])
                apax = prow + pcol
                ashape = [k.numel() for k in apax]
                regime = case['regime']
                n_el = int(np.prod(ashape)) if ashape else 1
                vals = [0.0 if r.random() < 0.3 else (round(r.random() * 0.5 / max(1, row.numel()), 4) if regime in ('small', 'cycle') else
                                                      (float('inf') if regime == 'inf' and r.random() < 0.1 else r.choice([0.25, 0.5, 1.5, round(r.random(), 3)])))
                        for _ in range(n_el)]
                aphys = lift_t(sem, np.array(vals).reshape(ashape), dtype)
                zero = S.from_int(0).item()
                a = IX.PatternedTensor(aphys, tuple(apax), (row, col), zero)
                if ff and all(f == ['sum', 1, 1] for f in T) and all(len(x) == len(T) for x in ff):
                    brow = mkax(ff[2])                 # may share some, all or none of a's axis objects
                    pbrow = fvs(brow)
                elif pat.get('b_shares_a_axes'):
                    brow, pbrow = row, list(prow)      # b is written over a's own row axis objects (as in a.solve(a.mv(v)))
                    c.inc('probe.patterned.b-shares-a-axes')
                else:
                    brow, pbrow = pattern_axes(IX, T, pat['b_row'])
                extra = [IX.PhysicalAxis(r.choice([2, 3])) for _ in range(pat['b_extra'])]
                bpax = pbrow + extra
                bshape = [k.numel() for k in bpax]
                bvals = [0.0 if r.random() < 0.3 else round(r.random() * 2, 3) for _ in range(int(np.prod(bshape)) if bshape else 1)]
                bphys = lift_t(sem, np.array(bvals).reshape(bshape), dtype)
                b = IX.PatternedTensor(bphys, tuple(bpax), (brow,) + tuple(extra), zero)
                Ad, bd = a.to_dense(), b.to_dense()
                n = Ad.shape[0]
                b2 = bd.reshape(n, -1) if bd.ndim > 1 else bd
                want = SR.solve(sem, Ad.numpy(), b2.numpy())
                if want is None:
                    raise Discard('too close to the radius of convergence')
                sa, sb = tsnap(a), tsnap(b)
                with recorded_warnings() as ws:
                    try:
                        x = a.solve(b, S)
                    except Exception as ex:
                        V('raised', feats + [type(ex).__name__], f'PatternedTensor.solve raised {type(ex).__name__}: {ex}; a.vaxes={a.vaxes} b.vaxes={b.vaxes}')
                if any('index type mismatch' in str(w.message) for w in ws):
                    raise RuntimeError('generator produced ill-typed operands')
                if not same_snap(tsnap(a), sa) or not same_snap(tsnap(b), sb):
                    V('arguments-modified', feats, 'PatternedTensor.solve changed an argument')
                xd = x.to_dense()
                if tuple(xd.shape) != tuple(bd.shape):
                    V('shape', feats, f'solution shape {tuple(xd.shape)} expected {tuple(bd.shape)}')
                compare(sem, xd.reshape(b2.shape).numpy(), want, feats, f'A={Ad.tolist()} b={bd.tolist()}')
                nontrivial = n >= 2
                c.inc('solve.patterned')
                log.add('x', np.asarray(want).tolist())
            else:
                keys = []
                for kind, name in case['keys']:
                    keys.append(name if kind == 'str' else (int(name.split('_')[1]) * 7 + 3 if kind == 'int' else
                                                            F.EdgeLabel(name, [], is_nonterminal=True)))
                if len(set(map(repr, keys))) != len(keys):
                    raise Discard('duplicate keys')
                shapes = {k: torch.Size(s) for k, s in zip(keys, case['shapes'])}
                # shapes mapping in a seeded insertion order
                ko = Stream(case['seed'], 'korder').perm(len(keys))
                shp = {keys[i]: shapes[keys[i]] for i in ko}
                a = MU.MultiTensor((shp, shp), S)
                zero = S.from_int(0).item()
                sizes = [int(np.prod(s)) if s else 1 for s in case['shapes']]
                off = np.concatenate([[0], np.cumsum(sizes)]).astype(int)
                N = int(off[-1])
                Afull = np.zeros((N, N))
                seen = set()
                for blk in case['blocks']:
                    i, j = blk['i'], blk['j']
                    if (i, j) in seen or i >= len(keys) or j >= len(keys):
                        continue
                    seen.add((i, j))
                    M = np.array(blk['vals'], dtype=np.float64).reshape(sizes[i], sizes[j])
                    if blk['diag'] and case['shapes'][i] == case['shapes'][j] and case['shapes'][i]:
                        M = np.diag(np.diag(M))
                        d = lift_t(sem, np.diag(M).reshape(case['shapes'][i]), dtype)
                        ks = tuple(IX.PhysicalAxis(s) for s in case['shapes'][i])
                        t = IX.PatternedTensor(d, ks, ks + ks, zero)
                        c.inc('probe.multi.diagonal-block')
                    else:
                        t = IX.PatternedTensor(lift_t(sem, M.reshape(list(case['shapes'][i]) + list(case['shapes'][j])), dtype), default=zero)
                    a[keys[i], keys[j]] = t
                    Afull[off[i]:off[i + 1], off[j]:off[j + 1]] = M
                bm = MU.MultiTensor(shp, S)
                bfull = np.zeros(N)
                seenb = set()
                for bv in case['bvec']:
                    i = bv['i']
                    if i in seenb or i >= len(keys):
                        continue
                    seenb.add(i)
                    v = np.array(bv['vals'], dtype=np.float64).reshape(sizes[i])
                    if bv.get('expand') and case['shapes'][i] and case['api'] == 'multi_mv' and sem != 'bool' and bv['i'] % 2 == 0:
                        # a constant block whose default IS its value (PatternedTensor.full): not a zero block
                        v = np.full(sizes[i], v[0] if v[0] else 1.0)
                        t = IX.PatternedTensor.full(tuple(case['shapes'][i]), lift_t(sem, v[0], dtype).item(), dtype=dtype)
                        c.inc('probe.multi.full-block-b')
                    elif bv.get('expand') and case['shapes'][i]:
                        v = np.full(sizes[i], v[0])
                        t = IX.PatternedTensor(lift_t(sem, v[0], dtype).expand(case['shapes'][i]), default=zero)
                        c.inc('probe.multi.stride0-b')
                    else:
                        t = IX.PatternedTensor(lift_t(sem, v.reshape(case['shapes'][i]), dtype), default=zero)
                    bm[keys[i]] = t
                    bfull[off[i]:off[i + 1]] = v
                tr = bool(case.get('transpose'))
                Aeff = Afull.T if tr else Afull
                sa = {k: tsnap(t) for k, t in a.items()}
                sb = {k: tsnap(t) for k, t in bm.items()}
                ka, kb = list(a.keys()), list(bm.keys())
                orders = []
                orig_order = MU._order_nonterminals

                def mon(a_):
                    o = orig_order(a_)
                    orders.append([repr(x) for x in o])
                    return o
                MU._order_nonterminals = mon
                try:
                    with recorded_warnings():
                        try:
                            if case['api'] == 'multi_solve':
                                x = MU.multi_solve(a, bm, transpose=tr)
                            else:
                                x = MU.multi_mv(a, bm, transpose=tr)
                        except Exception as ex:
                            V('raised', feats + [type(ex).__name__], f'{case["api"]} raised {type(ex).__name__}: {ex}')
                finally:
                    MU._order_nonterminals = orig_order
                if list(a.keys()) != ka or list(bm.keys()) != kb or any(not same_snap(tsnap(a[k]), sa[k]) for k in ka) or any(not same_snap(tsnap(bm[k]), sb[k]) for k in kb):
                    V('arguments-modified', feats + (['transpose'] if tr else []), f'{case["api"]} changed an argument')
                if case['api'] == 'multi_solve':
                    want = SR.solve(sem, lift_np(sem, Aeff), lift_np(sem, bfull))
                    if want is None:
                        raise Discard('too close to the radius of convergence')
                else:
                    want = SR.matvec(sem, lift_np(sem, Aeff), lift_np(sem, bfull))
                got = np.array(lift_np(sem, np.zeros(N)))
                for i, k in enumerate(keys):
                    if k in x:
                        xd = x[k].to_dense()
                        if tuple(xd.shape) != tuple(case['shapes'][i]):
                            V('shape', feats, f'block {k!r}: shape {tuple(xd.shape)} expected {case["shapes"][i]}')
                        got[off[i]:off[i + 1]] = xd.reshape(-1).numpy()
                try:
                    compare(sem, got, want, feats + (['transpose'] if tr else []), f'A={Aeff.tolist()} b={bfull.tolist()} shapes={case["shapes"]}')
                except Violation as v0:
                    # open finding C09-lu-rounding-into-divergent-block: with torch.linalg.solve (LU, partial pivoting) a solution
                    # component that is structurally zero comes out as ~1e-16 and a divergent block downstream turns it into inf.
                    # Operational test: the same call with every linalg.solve failing (Gauss-Jordan fallback) gives the reference
                    # answer, and the only disagreement of the LU run is inf where the reference is finite
                    lab = None
                    if sem == 'real' and case['api'] == 'multi_solve' and not case.get('linalg_fail'):
                        gotn, wantn = np.asarray(got), np.asarray(want)
                        okn = (gotn == wantn) | (np.isfinite(gotn) & np.isfinite(wantn) & (np.abs(gotn - wantn) <= 1e-6 * np.maximum(1.0, np.abs(wantn))))
                        if bool(np.all(okn | (np.isposinf(gotn) & np.isfinite(wantn)))):
                            with Env({'linalg_fail': ['all'], 'dtype': 'float64'}):
                                with recorded_warnings():
                                    try:
                                        x2 = MU.multi_solve(a, bm, transpose=tr)
                                    except Exception:
                                        x2 = None
                            if x2 is not None:
                                got2 = np.array(lift_np(sem, np.zeros(N)))
                                for i_, k_ in enumerate(keys):
                                    if k_ in x2:
                                        got2[off[i_]:off[i_ + 1]] = x2[k_].to_dense().reshape(-1).numpy()
                                ok2 = (got2 == wantn) | (np.isfinite(got2) & np.isfinite(wantn) & (np.abs(got2 - wantn) <= 1e-6 * np.maximum(1.0, np.abs(wantn))))
                                if bool(np.all(ok2)):
                                    lab = 'lu-rounding-into-divergent-block'
                    if lab is None:
                        raise
                    raise Violation('C09', 'least-solution', [lab] + feats + (['transpose'] if tr else []), v0.detail if hasattr(v0, 'detail') else str(v0))
                if case['seed'] % 3 == 0 and seen:
                    # history on the same MultiTensor: one block is overwritten in place (copy_) by a block of another
                    # pattern -- diagonal <-> dense -- and the same operation is asked again
                    hr = Stream(case['seed'], 'again')
                    (i, j) = sorted(seen)[hr.randrange(len(seen))]
                    M2 = np.array([[round(hr.random() * 0.3, 3) if hr.random() < 0.7 else 0.0 for _ in range(sizes[j])] for _ in range(sizes[i])], dtype=np.float64)
                    old_t = a[keys[i], keys[j]]
                    was_diag = len(old_t.paxes) < len(case['shapes'][i]) + len(case['shapes'][j])
                    if (not was_diag) and case['shapes'][i] == case['shapes'][j] and case['shapes'][i]:
                        M2 = np.diag(np.diag(M2))
                        ks = tuple(IX.PhysicalAxis(s_) for s_ in case['shapes'][i])
                        t2 = IX.PatternedTensor(lift_t(sem, np.diag(M2).reshape(case['shapes'][i]), dtype), ks, ks + ks, zero)
                    else:
                        t2 = IX.PatternedTensor(lift_t(sem, M2.reshape(list(case['shapes'][i]) + list(case['shapes'][j])), dtype), default=zero)
                    old_t.copy_(t2)
                    c.inc('hist.block-overwritten-in-place')
                    Afull[off[i]:off[i + 1], off[j]:off[j + 1]] = M2
                    Aeff = Afull.T if tr else Afull
                    with recorded_warnings():
                        try:
                            x = MU.multi_solve(a, bm, transpose=tr) if case['api'] == 'multi_solve' else MU.multi_mv(a, bm, transpose=tr)
                        except Exception as ex:
                            V('raised', feats + ['again', type(ex).__name__], f'{case["api"]} after an in-place block update raised {type(ex).__name__}: {ex}')
                    want = SR.solve(sem, lift_np(sem, Aeff), lift_np(sem, bfull)) if case['api'] == 'multi_solve' else SR.matvec(sem, lift_np(sem, Aeff), lift_np(sem, bfull))
                    if want is not None:
                        got = np.array(lift_np(sem, np.zeros(N)))
                        for i_, k_ in enumerate(keys):
                            if k_ in x:
                                got[off[i_]:off[i_ + 1]] = x[k_].to_dense().reshape(-1).numpy()
                        compare(sem, got, want, feats + ['again'] + (['transpose'] if tr else []), f'after overwriting block ({i},{j}) in place: A={Aeff.tolist()} b={bfull.tolist()} shapes={case["shapes"]}')
                for o in orders:
                    c.inc('probe.elimination-order.' + str(len(o)))
                nontrivial = len(seen) >= 2
                c.inc('solve.' + case['api'])
                log.add('x', np.asarray(want).tolist(), orders)
            counters = dict(c)
    except Violation as v:
        viol.append(v.to_json())
    import hashlib
    shape = hashlib.sha256(json.dumps({k: v for k, v in case.items() if k not in ('seed', 'prop')}, sort_keys=True).encode()).hexdigest()[:16]
    return {'violations': viol, 'counters': counters, 'digest': log.digest(), 'shape': shape, 'steps': 1, 'nontrivial': nontrivial}
