"""TENSORPROG engine (C06): programs (operation histories) over a pool of patterned tensors that alias each
other's storage and axes and are mutated in place, under a simulated PhysicalAxis hash order; every variable is
shadowed by the dense torch tensor it denotes, and every PatternedTensor the library constructs during a step is
checked against the representation invariant by a run-time wrapper of __post_init__."""
import copy
import itertools
import json
import math
import sys

import torch

from ..rng import Stream
from ..core import Violation, Discard, Log, import_repo
from ..env import Env, recorded_warnings
from ..shrink import list_reductions
from ..ref import tensor_ref as TR

RULE = {'C06': 'seeded programs (<=25 operations) over <=8 typed patterned variables (dimension types: atoms, products, sums; patterns with shared axes, '
               'stride-0 and permuted storage; defaults 0/1/+-inf/finite; float64/bool) drawn from the operation menu of DESIGN appendix B; '
               'non-trivial: >=5 operations executed on >=1 non-dense pattern; distinct = distinct (leaf patterns, program) digests'}
DISTINCT = 'distinct (leaf patterns, operation program) digests; op coverage per operation name is in the counters'
SIMULATED = ['program of operations over aliased, in-place mutated tensors (caller history)', 'PhysicalAxis hash order', 'construction-invariant monitor on every PatternedTensor built inside the library']
ORACLES = ['independent dense evaluator of every leaf pattern', 'plain torch on the dense models, step by step', 'frame check: every other live variable still denotes its model value']
ASSUMPTIONS = ['in-place forms are applied only to tensors whose physical storage has no stride-0 axis (torch refuses to write through self-overlapping views)',
               'operands of binary operations agree in dimension types (well-typedness); the library\'s own index-type-mismatch warning on such operands is a harness error',
               'variables sharing storage with an in-place mutated operand are retired (the statement says nothing about them)']

# dimension types: ['atom', n] | ['prod', t1, t2] | ['sum', m1, m2]
DIMTYPES = [['atom', 2], ['atom', 3], ['atom', 1], ['sum', 1, 2], ['sum', 2, 1], ['prod', ['atom', 2], ['atom', 2]],
            ['prod', ['sum', 1, 1], ['atom', 2]], ['atom', 4], ['sum', 1, 1]]


def plan(prop, tier):
    if tier == 'quick':
        return {'runs': 3000, 'cap': 60.0, 'det_runs': 30, 'legs': [{'hashseed': h} for h in (0, 1, 2, 3)]}
    return {'cap': 120.0, 'budget_s': 900, 'legs': [{'hashseed': h} for h in (0, 1, 2, 3, 4, 5, 6, 7)]}


def dt_numel(t):
    if t[0] == 'atom':
        return t[1]
    if t[0] == 'prod':
        return dt_numel(t[1]) * dt_numel(t[2])
    if t[0] == 'sum':
        return t[1] + t[2]
    return t[1]       # ['opaque', n, token]


def gen_axis_for(g, t, psizes, shared):
    """axis expression (JSON pattern language) for dimension type t; shared: {repr(type): [axis exprs]} for diagonals"""
    key = json.dumps(t)
    if key in shared and shared[key] and g.random() < 0.45:
        return copy.deepcopy(g.choice(shared[key]))
    n = dt_numel(t)
    if n == 1 and g.random() < 0.85:
        ax = []
    elif g.random() < 0.3 or t[0] in ('atom', 'opaque'):
        if n == 1:
            ax = []
        else:
            psizes.append(n)
            ax = len(psizes) - 1
    elif t[0] == 'prod':
        ax = [gen_axis_for(g, t[1], psizes, shared), gen_axis_for(g, t[2], psizes, shared)]
    else:
        m1, m2 = t[1], t[2]
        if g.random() < 0.5:
            ax = {'before': 0, 'term': gen_axis_for(g, ['atom', m1], psizes, {}), 'after': m2}
        else:
            ax = {'before': m1, 'term': gen_axis_for(g, ['atom', m2], psizes, {}), 'after': 0}
    shared.setdefault(key, []).append(ax)
    return ax


def gen_leaf(g, sig, dtype):
    psizes = []
    shared = {}
    vaxes = [gen_axis_for(g, t, psizes, shared) for t in sig]
    # every physical axis appears (by construction); permute their order, maybe expand some
    perm = g.perm(len(psizes))
    new = [0] * len(psizes)
    for old, nw in enumerate(perm):
        new[nw] = psizes[old]

    def ren(ax):
        if isinstance(ax, int):
            return perm[ax]
        if isinstance(ax, list):
            return [ren(f) for f in ax]
        return {'before': ax['before'], 'term': ren(ax['term']), 'after': ax['after']}
    vaxes = [ren(a) for a in vaxes]
    psizes = new
    n_exp = g.randrange(0, len(psizes) + 1) if psizes and g.random() < 0.25 else 0
    pshape = psizes[n_exp:]
    numel = 1
    for s in pshape:
        numel *= s
    if dtype == 'bool':
        vals = [g.random() < 0.5 for _ in range(numel)]
        default = g.choice([False, False, True])
    else:
        def val():
            r = g.random()
            if r < 0.1:
                return 0.0
            if r < 0.16:
                return float('inf')
            if r < 0.2:
                return float('-inf')
            if r < 0.32:
                return g.choice([1.0, -1.0, 0.5, 2.0])
            return round(g.random() * 6 - 3, 3)
        vals = [val() for _ in range(numel)]
        default = g.choice([0.0, 0.0, 0.0, 1.0, float('-inf'), float('inf'), -2.5, 0.75])

    def nest(v, sh):
        if not sh:
            return v.pop(0)
        return [nest(v, sh[1:]) for _ in range(sh[0])]
    spec = {'physical': nest(vals, list(pshape)), 'vaxes': vaxes, 'default': default}
    if n_exp:
        spec['expand'] = psizes[:n_exp]
    return spec


BINARY = ['add', 'sub', 'mul', 'div', 'logaddexp', 'maximum', 'lt', 'le', 'gt', 'ge', 'eq', 'where']
BINARY_BOOL = ['logical_and', 'logical_or', 'eq']
SCALAR = ['add_s', 'mul_s', 'div_s', 'sub_s', 'lt_s', 'le_s', 'gt_s', 'ge_s', 'eq_s', 'imul_s', 'itruediv_s', 'clamp_min', 'clamp_max']
UNARY = ['abs', 'exp', 'expm1', 'log', 'to_bool', 'to_float', 'neg_', 'log_', 'log1p_', 'relu_', 'abs_', 'nan_to_num_']
SELECT = ['any', 'log_softmax', 'norm']
ACCESS = ['getitem', 'iter', 'tolist', 'item']
SHAPE = ['transpose', 'permute', 'T', 'flatten', 'unsqueeze', 'expand', 'repeat', 'stack']
RESHAPE = ['reshape_merge', 'reshape_ones', 'reshape_any', 'view_merge']
COPIES = ['relayout', 'cast_chain', 'project_own', 'clone', 'detach', 'freshen', 'copy_', 'default_to', 'dim_to_dense', 'to_dense', 'project', 'imul_t', 'itruediv_t']
ALLOPS = BINARY * 3 + BINARY_BOOL + SCALAR + UNARY + SELECT * 2 + ACCESS + SHAPE * 2 + RESHAPE * 2 + COPIES * 2 + ['leaf'] * 4 + ['special_leaf'] * 2


def generate(prop, seed, tier):
    g = Stream(seed, 'gen')
    ops = []
    nops = g.randrange(5, 26 if tier == 'quick' else 36)
    # the run's signature universe
    sigs = []
    for _ in range(g.randrange(1, 4)):
        nd = g.randrange(0, 4)
        if g.random() < 0.08:
            nd = 4          # four small dimensions now and then (operations that treat the axes between two given ones)
        sg = [copy.deepcopy(g.choice(DIMTYPES)) for _ in range(nd)]
        if nd == 4:
            small = [t for t in DIMTYPES if dt_numel(t) <= 2] or DIMTYPES[:1]
            sg = [copy.deepcopy(g.choice(small)) for _ in range(nd)]
        sigs.append(sg)
    leaves = []
    for i in range(g.randrange(2, 5)):
        si = g.randrange(len(sigs))
        dtype = 'bool' if g.random() < 0.15 else 'float64'
        leaves.append({'sig': si, 'dtype': dtype, 'spec': gen_leaf(g, sigs[si], dtype)})
    enabled = [o for o in sorted(set(ALLOPS)) if g.random() < 0.75] or ['add']
    pool = [o for o in ALLOPS if o in enabled]
    for i in range(nops):
        ops.append({'uid': i, 'op': g.choice(pool), 'a': [g.randrange(1 << 16) for _ in range(6)], 'seed': g.randrange(1 << 30)})
    return {'engine': 'tensorprog', 'prop': prop, 'seed': seed, 'sigs': sigs, 'leaves': leaves, 'ops': ops,
            'env': {'axhash': seed, 'dtype': 'float64', 'alloc': {'mode': 'native'}}}


def reducers(case):
    yield from list_reductions(case, ['ops'])
    yield from list_reductions(case, ['leaves'], min_len=1)
    for i, op in enumerate(case['ops']):
        for j, v in enumerate(op['a']):
            if v > 7:
                c = copy.deepcopy(case)
                c['ops'][i]['a'][j] = v % 8
                yield c
    for li, lf in enumerate(case['leaves']):
        if lf['spec'].get('expand'):
            c = copy.deepcopy(case)
            sp = c['leaves'][li]['spec']
            # materialise the expansion
            dense_phys, _ = TR.dense_of_spec({'physical': sp['physical'], 'expand': sp['expand'], 'default': 0.0}, torch.float64 if lf['dtype'] != 'bool' else None)
            sp['physical'] = dense_phys.tolist()
            del sp['expand']
            yield c
        if lf['spec']['default'] not in (0.0, False):
            c = copy.deepcopy(case)
            c['leaves'][li]['spec']['default'] = False if lf['dtype'] == 'bool' else 0.0
            yield c


def describe(case):
    return {'sigs': case['sigs'], 'leaves': [[l['sig'], l['dtype'], l['spec']] for l in case['leaves'][:3]], 'ops': [[o['op']] + o['a'][:3] for o in case['ops']]}


def V(clause, feats, detail):
    raise Violation('C06', clause, feats, detail)


# ---------------------------------------------------------------- representation invariant (monitor)

def axis_eval(IX, e, pidx):
    if isinstance(e, IX.PhysicalAxis):
        return pidx[e]
    if isinstance(e, IX.ProductAxis):
        v = 0
        for f in e.factors:
            v = v * f.numel() + axis_eval(IX, f, pidx)
        return v
    return e.before + axis_eval(IX, e.term, pidx)


def axis_fv(IX, e, out):
    if isinstance(e, IX.PhysicalAxis):
        out.append(e)
    elif isinstance(e, IX.ProductAxis):
        for f in e.factors:
            axis_fv(IX, f, out)
    else:
        axis_fv(IX, e.term, out)


def check_invariant(IX, pt):
    """returns None or (kind, detail)"""
    paxes, vaxes = tuple(pt.paxes), tuple(pt.vaxes)
    size = tuple(pt.physical.size())
    if size != tuple(k.numel() for k in paxes):
        return ('physical-size', f'physical {size} vs paxes {tuple(k.numel() for k in paxes)}')
    if any(k.numel() == 1 for k in paxes):
        return ('size-1-physical-axis', str(size))
    if len({id(k) for k in paxes}) != len(paxes):
        return ('duplicate-physical-axis', '')
    fv = []
    for e in vaxes:
        axis_fv(IX, e, fv)
    if {id(k) for k in fv} != {id(k) for k in paxes}:
        return ('vaxes-free-axes-differ-from-paxes', f'{len({id(k) for k in fv})} free vs {len(paxes)} physical')
    n = 1
    for s in size:
        n *= s
    if 0 < n <= 256:
        seen = set()
        shape = tuple(e.numel() for e in vaxes)
        for idx in itertools.product(*[range(s) for s in size]):
            pidx = {k: i for k, i in zip(paxes, idx)}
            v = tuple(axis_eval(IX, e, pidx) for e in vaxes)
            if any(not (0 <= x < s) for x, s in zip(v, shape)):
                return ('index-out-of-range', f'{v} for shape {shape}')
            if v in seen:
                return ('not-injective', f'virtual element {v} backed twice')
            seen.add(v)
    return None


# ---------------------------------------------------------------- typing guard
# The statement quantifies over *well-typed* operands.  The generator types every dimension with an algebraic index type
# and only combines variables whose types agree; but the library itself can produce, from well-typed operands, a pattern
# that is not a pattern of that type (indexing a diagonal over a dense axis that stands for (1+1)x2 yields a one-hot
# SumAxis(3, (), 0), i.e. the split 3+1 of the flattened index).  Combining that with a (1+1)x2 pattern is an index type
# mismatch by the library's own discipline (it warns), hence outside the statement.  After every step each dimension of
# the result is therefore checked against its declared type, and a dimension that does not conform gets a fresh opaque
# type, so that it is only ever combined with values derived from itself.

def _type_leaves(t, out):
    if t[0] == 'prod':
        _type_leaves(t[1], out)
        _type_leaves(t[2], out)
    else:
        out.append(t)
    return out


def skeleton(IX, e):
    if isinstance(e, IX.PhysicalAxis):
        return 'P'
    if isinstance(e, IX.ProductAxis):
        return ['X'] + [skeleton(IX, f) for f in e.factors]
    return ['S', e.before, e.after, skeleton(IX, e.term)]


def conforms(IX, e, t):
    """is the axis expression e a pattern of the algebraic index type t?  (a dense PhysicalAxis may stand for any subtree)"""
    if isinstance(e, IX.PhysicalAxis):
        return e.numel() == dt_numel(t)
    if t[0] == 'atom':
        return isinstance(e, IX.ProductAxis) and len(e.factors) == 0 and t[1] == 1
    if t[0] == 'sum':
        if not isinstance(e, IX.SumAxis):
            return False
        m1, m2 = t[1], t[2]
        if e.before == 0 and e.after == m2:
            return conforms(IX, e.term, ['atom', m1])
        if e.before == m1 and e.after == 0:
            return conforms(IX, e.term, ['atom', m2])
        return False
    if t[0] == 'prod':
        leaves = _type_leaves(t, [])
        factors = list(e.factors) if isinstance(e, IX.ProductAxis) else [e]
        i = 0
        for f in factors:
            n = f.numel()
            if isinstance(f, IX.PhysicalAxis):
                prod = 1
                while i < len(leaves) and prod < n:
                    prod *= dt_numel(leaves[i])
                    i += 1
                if prod != n:
                    return False
            else:
                while i < len(leaves) and dt_numel(leaves[i]) == 1 and n != 1:
                    i += 1
                if i >= len(leaves) or not conforms(IX, f, leaves[i]):
                    return False
                i += 1
        return all(dt_numel(l) == 1 for l in leaves[i:])
    return True       # opaque: handled by the skeleton table of the machine


# ---------------------------------------------------------------- the machine

class Var:
    __slots__ = ('pt', 'model', 'sig', 'alias', 'live', 'dense_leaf')

    def __init__(self, pt, model, sig, alias):
        self.pt, self.model, self.sig, self.alias, self.live = pt, model, sig, alias, True


def same(a, b, exact=True, atol=1e-300):
    if tuple(a.shape) != tuple(b.shape) or a.dtype != b.dtype:
        return False
    if a.dtype == torch.bool or exact:
        return bool(torch.equal(a, b)) if not a.dtype.is_floating_point else bool(torch.allclose(a, b, rtol=0, atol=0, equal_nan=True))
    if bool(torch.allclose(a, b, rtol=1e-12, atol=atol, equal_nan=True)):
        return True
    # at the overflow boundary an inexact operation (a norm of entries near 1e154 ... 1e308) may come out as inf in one
    # evaluation order and as a huge finite number in another: both sides beyond 1e300 in magnitude, same sign
    bad = ~torch.isclose(a, b, rtol=1e-12, atol=atol, equal_nan=True)
    huge = (a.abs() >= 1e300) & (b.abs() >= 1e300) & (torch.sign(a) == torch.sign(b))
    return bool((huge | ~bad).all())


def list_eq(x_, y_):
    if isinstance(x_, list) or isinstance(y_, list):
        return isinstance(x_, list) and isinstance(y_, list) and len(x_) == len(y_) and all(list_eq(p_, q_) for p_, q_ in zip(x_, y_))
    return isinstance(x_, bool) == isinstance(y_, bool) and (x_ == y_ or (x_ != x_ and y_ != y_))


def abs_slack(*models):
    """absolute rounding slack for results that are differences of larger quantities (x - logsumexp(x), max + log1p(..)):
    a few ulps of the largest finite operand magnitude"""
    m = 1.0
    for t in models:
        f = t[torch.isfinite(t)]
        if f.numel():
            m = max(m, float(f.abs().max()))
    return 16 * 2.220446049250313e-16 * m


def same_div(got, want, divisor_zero):
    """like same(..., exact=False) but where the divisor is +-0 only magnitudes are compared: 0.0 == -0.0 as tensors
    elements, so the sign of an infinity obtained by dividing by such a zero is not part of the denotation"""
    if tuple(got.shape) != tuple(want.shape) or got.dtype != want.dtype:
        return False
    z = divisor_zero.expand(got.shape) if divisor_zero.shape != got.shape else divisor_zero
    a = torch.where(z, got.abs(), got)
    b = torch.where(z, want.abs(), want)
    return bool(torch.allclose(a, b, rtol=1e-12, atol=1e-300, equal_nan=True))


class Machine:
    def __init__(self, case, env):
        self.F = import_repo()
        self.IX = sys.modules['fggs.indices']
        self.case = case
        self.c = env.c
        self.log = Log(keep=False)
        self.vars = []
        self.next_alias = 0
        self.built = []          # PatternedTensors constructed inside the library during the current step
        self.nops = 0
        self.nonDense = False
        self.tok = 0
        self.pending_reread = []
        self.skel = {}           # opaque token -> structural skeleton of the axis it was introduced with

    def opaque(self, n):
        self.tok += 1
        return ['opaque', int(n), self.tok]

    def new_alias(self):
        self.next_alias += 1
        return self.next_alias

    def add(self, pt, model, sig, alias=None):
        if len([v for v in self.vars if v.live]) >= 8:
            # retire the oldest
            for v in self.vars:
                if v.live:
                    v.live = False
                    break
        v = Var(pt, model, sig, alias if alias is not None else self.new_alias())
        self.vars.append(v)
        return v

    def live(self, pred=None):
        return [v for v in self.vars if v.live and (pred is None or pred(v))]

    def pick(self, c, pred=None):
        vs = self.live(pred)
        return vs[c % len(vs)] if vs else None

    def setup(self):
        for lf in self.case['leaves']:
            sig = copy.deepcopy(self.case['sigs'][lf['sig'] % len(self.case['sigs'])])
            dt = torch.bool if lf['dtype'] == 'bool' else torch.float64
            model, mult = TR.dense_of_spec(lf['spec'], dt)
            if int(mult.max()) > 1 if mult.numel() else False:
                raise RuntimeError('generator produced a non-injective leaf')
            if [dt_numel(t) for t in sig] != list(model.shape):
                raise Discard('leaf no longer matches its signature (reduced case)')
            pt = TR.mk_patterned(lf['spec'], dt)
            if len(pt.paxes) != len(pt.vaxes) or any(not isinstance(e, self.IX.PhysicalAxis) for e in pt.vaxes):
                self.nonDense = True
            self.add(pt, model, sig)

    def check_all(self, opname):
        for i, v in enumerate(self.vars):
            if not v.live:
                continue
            d = v.pt.to_dense()
            if not same(d, v.model):
                V('frame', [opname], f'after {opname} variable #{i} no longer denotes its model value: {d.tolist()} vs {v.model.tolist()}')

    def retire_if_nan(self, v):
        if v.model.dtype.is_floating_point and bool(torch.isnan(v.model).any()):
            v.live = False      # NaN values are checked once (equal_nan) and not fed into further operations
            self.c.inc('probe.nan-result-retired')

    def shares_storage(self, u, v):
        """alias classes are tracked by id, but an in-place operation may re-class its receiver while views of the old storage
        stay in use: operands of an in-place binary operation must not overlap in memory (torch refuses or is undefined)"""
        try:
            return u.pt.physical.untyped_storage().data_ptr() == v.pt.physical.untyped_storage().data_ptr()
        except Exception:
            return False

    def retire_aliases(self, v):
        self.retire_if_nan(v)
        for w in self.vars:
            if w is not v and w.live and w.alias == v.alias:
                # what a view shows after its source was written to is not specified by the statement; but whatever it
                # denotes afterwards (its own to_dense()) is what every later operation on it has to agree with.  Its model
                # is re-read from to_dense() once the in-place operation is done (see reread_aliases) -- nothing is asserted
                # about the new value itself -- and the variable stays in use
                self.pending_reread.append(w)

    def reread_aliases(self):
        for w in self.pending_reread:
            if not w.live:
                continue
            try:
                d = w.pt.to_dense().detach().clone()
            except Exception:
                w.live = False
                self.c.inc('probe.alias-retired')
                continue
            if tuple(d.shape) != tuple(w.model.shape) or d.dtype != w.model.dtype or \
                    (d.dtype.is_floating_point and bool(torch.isnan(d).any())):
                w.live = False
                self.c.inc('probe.alias-retired')
                continue
            w.model = d
            self.c.inc('probe.alias-model-reread')
            # the view's other accessors have to agree with what its to_dense() shows now
            got = w.pt.tolist()
            if not list_eq(got, d.tolist()):
                V('tolist', ['view-after-inplace-on-source'], f'{got} vs to_dense() {d.tolist()}')
            if d.ndim >= 1 and d.shape[0] > 0:
                parts = list(iter(w.pt))
                if len(parts) != d.shape[0] or any(not same(p_.to_dense(), m_) for p_, m_ in zip(parts, d.unbind(0))):
                    V('iteration', ['view-after-inplace-on-source'], f'iteration over a view disagrees with its to_dense() {d.tolist()}')
        self.pending_reread = []

    def result(self, opname, pt, model, sig, alias=None, exact=True, atol=1e-300):
        if not isinstance(pt, self.IX.PatternedTensor):
            V('result-type', [opname], f'{opname} returned {type(pt).__name__}')
        bad = check_invariant(self.IX, pt)
        if bad:
            V('representation-invariant', [opname, bad[0]], f'result of {opname}: {bad[1]}; vaxes={pt.vaxes}')
        d = pt.to_dense()
        if tuple(pt.shape) != tuple(model.shape):
            V('shape', [opname], f'{opname}: shape {tuple(pt.shape)} expected {tuple(model.shape)}')
        if d.dtype != model.dtype:
            V('dtype', [opname], f'{opname}: dtype {d.dtype} expected {model.dtype}')
        if not same(d, model, exact, atol):
            V('denotation', [opname], f'{opname}: result denotes {d.tolist()} but torch gives {model.tolist()}')
        if not exact:
            model = d.clone()       # within the 1-ulp slack of a transcendental map: track the value actually produced
        sig = self.retype(pt, sig, opname)
        if alias is not None and (len(self.vars) + self.nops) % 2 == 0 and not (model.dtype.is_floating_point and bool(torch.isnan(model).any())):
            # a fresh view is read once through tolist()/iteration, as a caller printing it would
            if not list_eq(pt.tolist(), model.tolist()):
                V('tolist', [opname, 'view'], f'{pt.tolist()} vs {model.tolist()}')
            if model.ndim >= 1 and model.shape[0] > 0:
                for p_, m_ in zip(iter(pt), model.unbind(0)):
                    if not same(p_.to_dense(), m_):
                        V('iteration', [opname, 'view'], f'{p_.to_dense().tolist()} vs {m_.tolist()}')
            self.c.inc('probe.view-read-once')
        v = self.add(pt, model, sig, alias)
        if model.dtype.is_floating_point and bool(torch.isnan(model).any()):
            v.live = False          # NaN results are checked once (equal_nan) and not fed into further operations
            self.c.inc('probe.nan-result-retired')
        return v

    def retype(self, pt, sig, opname):
        """typing guard (see above): a dimension whose pattern is not a pattern of its declared type becomes opaque"""
        sig = list(sig)
        for i, (e, t) in enumerate(zip(pt.vaxes, sig)):
            if t[0] == 'opaque':
                sk = skeleton(self.IX, e)
                reg = self.skel.setdefault(t[2], sk if sk != 'P' else None)
                if sk == 'P' or sk == ['X']:
                    continue
                if reg is None:
                    self.skel[t[2]] = sk
                elif reg != sk:
                    sig[i] = self.opaque(t[1])
                    self.skel[sig[i][2]] = sk
                    self.c.inc('probe.retyped-opaque')
            elif not conforms(self.IX, e, t):
                sig[i] = self.opaque(dt_numel(t))
                self.skel[sig[i][2]] = skeleton(self.IX, e)
                self.c.inc('probe.retyped-nonconforming')
                self.c.inc('probe.retyped-nonconforming.' + opname)
        return sig

    # ---- one step
    def step(self, op):
        name, a = op['op'], op['a']
        fn = getattr(self, 'op_' + name, None)
        if fn is None:
            if name in BINARY or name in BINARY_BOOL:
                fn = lambda a_, n=name: self.binary(n, a_)
            elif name in SCALAR:
                fn = lambda a_, n=name: self.scalar(n, a_)
            elif name in UNARY:
                fn = lambda a_, n=name: self.unary(n, a_)
        self.built = []
        self.pending_reread = []
        pending = None
        with recorded_warnings() as ws:
            try:
                r = fn(a)
            except Violation as v_:
                pending = v_
        for w in ws:
            if 'index type mismatch' in str(w.message) and (name in BINARY or name in BINARY_BOOL or name in ('imul_t', 'itruediv_t', 'stack')):
                raise RuntimeError('generator produced ill-typed operands for ' + name)
        if pending is not None:
            raise pending
        self.reread_aliases()
        if r is None:
            return
        self.nops += 1
        self.c.inc('op.' + name)
        for pt in self.built:
            bad = check_invariant(self.IX, pt)
            if bad:
                V('representation-invariant', [name, bad[0], 'internal'], f'a PatternedTensor constructed during {name}: {bad[1]}; vaxes={pt.vaxes}')
        self.c.inc('constructions.checked', len(self.built))
        self.check_all(name)
        self.log.add(op['uid'], name, r if isinstance(r, (str, int, list)) else str(r))

    def floats(self, v):
        return v.model.dtype.is_floating_point

    def writable(self, v):
        """in-place forms are only applied to tensors whose physical storage has no stride-0 (self-overlapping) axis:
        torch itself refuses to write through such views"""
        p = v.pt.physical
        return all(st != 0 for st, sz in zip(p.stride(), p.size()) if sz > 1)

    # ---- families
    def binary(self, name, a):
        want_bool = name in ('logical_and', 'logical_or')
        x = self.pick(a[0], (lambda v: v.model.dtype == torch.bool) if want_bool else (lambda v: self.floats(v)))
        if x is None:
            return None
        part = self.live(lambda v: v.sig == x.sig and v.model.dtype == x.model.dtype)
        y = part[a[1] % len(part)]
        tf = {'add': torch.add, 'sub': torch.sub, 'mul': torch.mul, 'div': torch.div, 'logaddexp': torch.logaddexp, 'maximum': torch.maximum,
              'lt': torch.lt, 'le': torch.le, 'gt': torch.gt, 'ge': torch.ge, 'eq': torch.eq, 'logical_and': torch.logical_and, 'logical_or': torch.logical_or}
        if name == 'where':
            cs = self.live(lambda v: v.sig == x.sig and v.model.dtype == torch.bool)
            if a[4] % 2 == 0:
                # a fresh condition of the same signature with its own pattern (often dense, True off the other operands' patterns)
                g = Stream(a[4] * 65536 + a[5], 'cond')
                spec = gen_leaf(g, x.sig, 'bool')
                cm, _ = TR.dense_of_spec(spec, torch.bool)
                cv = self.result('leaf', TR.mk_patterned(spec, torch.bool), cm, x.sig)
            elif not cs:
                # make a condition by comparing
                cpt = x.pt.gt(0.25)
                cm = x.model.gt(0.25)
                cv = self.result('gt_s', cpt, cm, x.sig)
            else:
                cv = cs[a[2] % len(cs)]
            r = x.pt.where(cv.pt, y.pt)
            m = torch.where(cv.model, x.model, y.model)
            self.result('where', r, m, x.sig)
            return 'where'
        if name == 'eq' and x.model.dtype == torch.bool:
            r = x.pt.eq(y.pt)
        elif a[3] % 3 == 0 and name in ('mul', 'div', 'add', 'sub'):
            r = {'mul': lambda: x.pt * y.pt, 'div': lambda: x.pt / y.pt, 'add': lambda: x.pt + y.pt, 'sub': lambda: x.pt - y.pt}[name]()
        else:
            r = getattr(x.pt, name)(y.pt)
        m = tf[name](x.model, y.model)
        if name == 'div':
            d = r.to_dense()
            if not same_div(d, m, y.model == 0):
                V('denotation', [name], f'{name}: result denotes {d.tolist()} but torch gives {m.tolist()}')
            m = d.clone()
        self.result(name, r, m, x.sig, exact=name not in ('logaddexp', 'div'), atol=abs_slack(x.model, y.model) if name == 'logaddexp' else 1e-300)
        return name

    def scalar(self, name, a):
        x = self.pick(a[0], lambda v: self.floats(v))
        if x is None:
            return None
        s = [0.0, 1.0, -1.0, 0.5, 2.0, -2.5, 3.0, float('inf')][a[1] % 8]
        if name in ('div_s', 'itruediv_s') and s == 0.0:
            s = 4.0
        if name in ('imul_s', 'itruediv_s'):
            if not self.writable(x):
                return None
            if name == 'imul_s' and s == float('inf'):
                s = 2.0
            pt = x.pt
            if name == 'imul_s':
                pt *= s
                x.model = x.model * s
            else:
                pt /= s
                x.model = x.model / s
            if pt is not x.pt:
                V('in-place-identity', [name], 'in-place operator returned another object')
            self.retire_aliases(x)
            if not same(x.pt.to_dense(), x.model):
                V('denotation', [name], f'{name}({s}): {x.pt.to_dense().tolist()} vs {x.model.tolist()}')
            return name
        tbl = {'add_s': (lambda p: p.add(s), lambda m: m.add(s)), 'mul_s': (lambda p: p.mul(s), lambda m: m.mul(s)), 'div_s': (lambda p: p.div(s), lambda m: m.div(s)),
               'sub_s': (lambda p: p.sub(s), lambda m: m.sub(s)),
               'lt_s': (lambda p: p.lt(s), lambda m: m.lt(s)), 'le_s': (lambda p: p.le(s), lambda m: m.le(s)),
               'gt_s': (lambda p: p.gt(s), lambda m: m.gt(s)), 'ge_s': (lambda p: p.ge(s), lambda m: m.ge(s)),
               'eq_s': (lambda p: p.eq(s), lambda m: m.eq(s)),
               'clamp_min': (lambda p: p.clamp_min(s), lambda m: m.clamp_min(s)), 'clamp_max': (lambda p: p.clamp_max(s), lambda m: m.clamp_max(s))}
        pf, mf = tbl[name]
        self.result(name, pf(x.pt), mf(x.model), x.sig, exact=name != 'div_s')
        return name

    def unary(self, name, a):
        if name == 'to_float':
            x = self.pick(a[0])
            if x is None:
                return None
            self.result(name, x.pt.to(torch.float64), x.model.to(torch.float64), x.sig, alias=x.alias if x.model.dtype == torch.float64 else None)
            return name
        x = self.pick(a[0], lambda v: self.floats(v))
        if x is None:
            return None
        if name == 'to_bool':
            self.result(name, x.pt.to(torch.bool), x.model.to(torch.bool), x.sig)
            return name
        if name.endswith('_'):
            if not self.writable(x):
                return None
            pt = x.pt
            if name == 'nan_to_num_':
                kw = [dict(nan=0.0, posinf=None, neginf=None), dict(nan=1.5, posinf=7.0, neginf=-7.0), dict(nan=0.0, posinf=float('inf'), neginf=float('-inf')),
                      dict(nan=-1.0, posinf=3.0, neginf=None)][a[1] % 4]
                r = pt.nan_to_num_(**kw)
                x.model = x.model.nan_to_num(**kw)
            else:
                if name in ('log_', 'log1p_') and bool((x.model < (0 if name == 'log_' else -1)).any()):
                    return None     # nan results: sign of nan payloads is not a property
                r = getattr(pt, name)()
                x.model = {'neg_': torch.neg, 'log_': torch.log, 'log1p_': torch.log1p, 'relu_': torch.relu, 'abs_': torch.abs}[name](x.model)
            if r is not pt:
                V('in-place-identity', [name], 'in-place operation returned another object')
            self.retire_aliases(x)
            if not same(x.pt.to_dense(), x.model, exact=name in ('neg_', 'relu_', 'abs_', 'nan_to_num_')):
                V('denotation', [name], f'{name}: {x.pt.to_dense().tolist()} vs {x.model.tolist()}')
            x.model = x.pt.to_dense().clone()
            return name
        if name in ('log',) and bool((x.model < 0).any()):
            return None
        tf = {'abs': torch.abs, 'exp': torch.exp, 'expm1': torch.expm1, 'log': torch.log}[name]
        self.result(name, getattr(x.pt, name)(), tf(x.model), x.sig, exact=name == 'abs')
        return name

    def op_logical_not(self, a):
        x = self.pick(a[0], lambda v: v.model.dtype == torch.bool)
        if x is None:
            return None
        self.result('logical_not', x.pt.logical_not(), x.model.logical_not(), x.sig)
        return 'logical_not'

    def op_leaf(self, a):
        g = Stream(a[0] * 65536 + a[1], 'leaf')
        sig = copy.deepcopy(self.case['sigs'][a[2] % len(self.case['sigs'])])
        # prefer the signature of an existing variable, so that binary operations find partners
        vs = self.live()
        if vs and a[3] % 3:
            sig = copy.deepcopy(vs[a[4] % len(vs)].sig)
        if any(t[0] == 'opaque' for t in sig):
            sig = [t if t[0] != 'opaque' else t for t in sig]
        dtype = 'bool' if a[5] % 6 == 0 else 'float64'
        spec = gen_leaf(g, sig, dtype)
        dt = torch.bool if dtype == 'bool' else torch.float64
        model, mult = TR.dense_of_spec(spec, dt)
        pt = TR.mk_patterned(spec, dt)
        if len(pt.paxes) != len(pt.vaxes) or any(not isinstance(e, self.IX.PhysicalAxis) for e in pt.vaxes):
            self.nonDense = True
        self.result('leaf', pt, model, sig)
        return 'leaf'

    def op_special_leaf(self, a):
        """the library's own constructors: eye, full, from_int"""
        S = sys.modules['fggs.semirings']
        sem = [S.RealSemiring(dtype=torch.float64), S.LogSemiring(dtype=torch.float64), S.ViterbiSemiring(dtype=torch.float64)][a[0] % 3]
        k = a[1] % 3
        PT = self.IX.PatternedTensor
        if k == 0:
            n = 1 + a[2] % 3
            pt = PT.eye(n, sem)
            m = sem.eye(n)
            sig = [['atom', n], ['atom', n]]
        elif k == 1:
            shape = [1 + a[2] % 3, 1 + a[3] % 3][:1 + a[4] % 2]
            v = [0.0, 1.0, -2.5, float('inf')][a[5] % 4]
            pt = PT.full(shape, v, dtype=torch.float64)
            m = torch.full(shape, v, dtype=torch.float64)
            sig = [['atom', n] for n in shape]
        else:
            i = a[2] % 3
            pt = PT.from_int(i, sem)
            m = sem.from_int(i)
            sig = []
        self.result('special_leaf', pt, m, sig)
        self.nonDense = True
        return 'special_leaf'

    def op_any(self, a):
        x = self.pick(a[0], lambda v: v.model.dtype == torch.bool and v.model.ndim >= 1)
        if x is None:
            return None
        d = a[1] % x.model.ndim
        keep = bool(a[2] % 2)
        sig = [t for i, t in enumerate(x.sig) if i != d] if not keep else [t if i != d else ['atom', 1] for i, t in enumerate(x.sig)]
        self.result('any', x.pt.any(d, keepdim=keep), x.model.any(dim=d, keepdim=keep), sig, alias=x.alias)
        return 'any'

    def op_log_softmax(self, a):
        x = self.pick(a[0], lambda v: self.floats(v) and v.model.ndim >= 1 and v.model.numel() > 0 and not bool(torch.isinf(v.model).any()) and math.isfinite(v.pt.default))
        if x is None:
            return None
        d = a[1] % x.model.ndim
        self.result('log_softmax', x.pt.log_softmax(d), x.model.log_softmax(d), x.sig, exact=False, atol=abs_slack(x.model))
        return 'log_softmax'

    def op_norm(self, a):
        x = self.pick(a[0], lambda v: self.floats(v) and v.model.ndim >= 1 and not bool(torch.isinf(v.model).any()) and math.isfinite(v.pt.default))
        if x is None:
            return None
        d = a[1] % x.model.ndim
        p = [1, 2][a[2] % 2]
        keep = bool(a[3] % 2)
        sig = [t for i, t in enumerate(x.sig) if i != d] if not keep else [t if i != d else ['atom', 1] for i, t in enumerate(x.sig)]
        self.result('norm', x.pt.norm(p, d, keepdim=keep), x.model.norm(p, dim=d, keepdim=keep), sig, exact=False)
        return 'norm'

    def op_getitem(self, a):
        x = self.pick(a[0], lambda v: v.model.ndim >= 1 and v.model.numel() > 0)
        if x is None:
            return None
        k = 1 + a[1] % x.model.ndim
        idx = tuple(a[2 + i] % x.model.shape[i] for i in range(min(k, 3)))
        k = len(idx)
        r = x.pt[idx[0]] if k == 1 and a[5] % 2 else x.pt[idx]
        self.result('getitem', r, x.model[idx], x.sig[k:], alias=x.alias)
        return 'getitem'

    def op_iter(self, a):
        x = self.pick(a[0], lambda v: v.model.ndim >= 1)
        if x is None:
            return None
        parts = list(iter(x.pt))
        ms = list(x.model.unbind(0))
        if len(parts) != len(ms):
            V('iteration', ['length'], f'iter gives {len(parts)} items, expected {len(ms)}')
        for i, (p, m) in enumerate(zip(parts, ms)):
            if not same(p.to_dense(), m):
                V('iteration', ['item'], f'item {i}: {p.to_dense().tolist()} vs {m.tolist()}')
        return 'iter'

    def op_tolist(self, a):
        x = self.pick(a[0])
        if x is None:
            return None
        got = x.pt.tolist()
        want = x.model.tolist()
        def eq(x_, y_):
            if isinstance(x_, list) or isinstance(y_, list):
                return isinstance(x_, list) and isinstance(y_, list) and len(x_) == len(y_) and all(eq(p_, q_) for p_, q_ in zip(x_, y_))
            return isinstance(x_, bool) == isinstance(y_, bool) and (x_ == y_ or (x_ != x_ and y_ != y_))
        if not eq(got, want):
            V('tolist', [], f'{got} vs {want}')
        return 'tolist'

    def op_item(self, a):
        x = self.pick(a[0], lambda v: v.model.numel() == 1 and v.model.ndim == 0)
        if x is None:
            return None
        got, want = x.pt.item(), x.model.item()
        if not (got == want or (got != got and want != want)):
            V('item', [], f'{got} vs {want}')
        if x.model.dtype.is_floating_point:
            f = float(x.pt)
            if not (f == want or (f != f and want != want)):
                V('item', ['float'], f'{f} vs {want}')
        return 'item'

    def op_transpose(self, a):
        x = self.pick(a[0], lambda v: v.model.ndim >= 2)
        if x is None:
            return None
        i, j = a[1] % x.model.ndim, a[2] % x.model.ndim
        sig = list(x.sig)
        sig[i], sig[j] = sig[j], sig[i]
        self.result('transpose', x.pt.transpose(i, j), x.model.transpose(i, j), sig, alias=x.alias)
        return 'transpose'

    def op_permute(self, a):
        x = self.pick(a[0], lambda v: v.model.ndim >= 1)
        if x is None:
            return None
        perm = Stream(a[1], 'perm').perm(x.model.ndim)
        self.result('permute', x.pt.permute(perm), x.model.permute(perm), [x.sig[i] for i in perm], alias=x.alias)
        return 'permute'

    def op_T(self, a):
        x = self.pick(a[0], lambda v: v.model.ndim <= 2 or a[1] % 2)
        if x is None:
            return None
        if x.model.ndim <= 2 and a[2] % 2:
            r = x.pt.t()
            m = x.model.t()
        else:
            r = x.pt.T
            m = x.model.permute(list(reversed(range(x.model.ndim))))
        self.result('T', r, m, x.sig[::-1], alias=x.alias)
        return 'T'

    def op_flatten(self, a):
        x = self.pick(a[0], lambda v: v.model.ndim >= 1)
        if x is None:
            return None
        sig = x.sig[0]
        for t in x.sig[1:]:
            sig = ['prod', sig, t]
        self.result('flatten', x.pt.flatten(), x.model.flatten(), [sig], alias=x.alias)
        return 'flatten'

    def op_unsqueeze(self, a):
        x = self.pick(a[0], lambda v: v.model.ndim <= 2)
        if x is None:
            return None
        d = a[1] % (x.model.ndim + 1)
        if a[2] % 2:
            d = d - (x.model.ndim + 1)
        dd = d if d >= 0 else d + x.model.ndim + 1
        sig = x.sig[:dd] + [['atom', 1]] + x.sig[dd:]
        self.result('unsqueeze', x.pt.unsqueeze(d), x.model.unsqueeze(d), sig, alias=x.alias)
        return 'unsqueeze'

    def op_expand(self, a, repeat=False):
        x = self.pick(a[0], lambda v: v.model.ndim <= 2)
        if x is None:
            return None
        sizes = list(x.model.shape)
        sig = list(x.sig)
        for i, s in enumerate(sizes):
            if s == 1 and a[1 + i % 3] % 2:
                sizes[i] = 2 + a[2] % 2
                sig[i] = self.opaque(sizes[i])
        extra = a[4] % 2
        if extra:
            n = 1 + a[5] % 3
            sizes = [n] + sizes
            sig = [self.opaque(n)] + sig
        if repeat:
            self.result('repeat', x.pt.repeat(*sizes), x.model.expand(sizes).clone(), sig)
            return 'repeat'
        if a[3] % 3 == 0:
            other = self.IX.PatternedTensor(torch.zeros(sizes, dtype=x.model.dtype))
            r = x.pt.expand_as(other)
        else:
            r = x.pt.expand(*sizes)
        self.result('expand', r, x.model.expand(sizes), sig, alias=x.alias)
        return 'expand'

    def op_repeat(self, a):
        return self.op_expand(a, repeat=True)

    def op_stack(self, a):
        x = self.pick(a[0], lambda v: v.model.ndim <= 2 and v.pt.default == v.pt.default)
        if x is None:
            return None
        # documented precondition of stack: same size and same default
        part = self.live(lambda v: v.sig == x.sig and v.model.dtype == x.model.dtype and (v is x or v.pt.default == x.pt.default))
        k = 1 + a[1] % 3
        items = [part[(a[2] + i * 7) % len(part)] for i in range(k)]
        d = a[3] % (x.model.ndim + 1)
        stack = self.IX.stack
        r = stack([v.pt for v in items], dim=d)
        m = torch.stack([v.model for v in items], dim=d)
        sig = x.sig[:d] + [self.opaque(k)] + x.sig[d:]
        self.result('stack', r, m, sig, alias=items[0].alias if k == 1 else None)
        return 'stack'

    def _reshape(self, x, shape, must, view, name):
        try:
            r = (x.pt.view if view else x.pt.reshape)(*shape) if len(shape) != 1 or True else None
        except RuntimeError as ex:
            if must:
                V('reshape-must-succeed', [name], f'{name} of shape {tuple(x.model.shape)} to {shape} raised RuntimeError: {ex}; vaxes={x.pt.vaxes}')
            self.c.inc('probe.reshape-refused')
            return 'refused'
        except AssertionError as ex:
            V('reshape-raises-other', [name, 'AssertionError'], f'{name} of shape {tuple(x.model.shape)} to {shape}: AssertionError {ex}')
        m = x.model.reshape(shape)
        sig = [self.opaque(s) for s in m.shape]
        self.result(name, r, m, sig, alias=x.alias)
        return name

    def op_reshape_merge(self, a, view=False):
        x = self.pick(a[0], lambda v: v.model.ndim >= 2)
        if x is None:
            return None
        i = a[1] % (x.model.ndim - 1)
        sh = list(x.model.shape)
        shape = sh[:i] + [sh[i] * sh[i + 1]] + sh[i + 2:]
        # view() may legitimately refuse where storage is not contiguous in the merged order; reshape must succeed
        return self._reshape(x, shape, must=not view, view=view, name='view_merge' if view else 'reshape_merge')

    def op_view_merge(self, a):
        return self.op_reshape_merge(a, view=True)

    def op_reshape_ones(self, a):
        x = self.pick(a[0])
        if x is None:
            return None
        sh = [s for s in x.model.shape if s != 1 or a[1] % 2]
        pos = a[2] % (len(sh) + 1)
        sh = sh[:pos] + [1] * (a[3] % 2 + (0 if a[1] % 2 else 1)) + sh[pos:]
        return self._reshape(x, sh, must=True, view=False, name='reshape_ones')

    def op_reshape_any(self, a):
        x = self.pick(a[0], lambda v: v.model.numel() >= 2)
        if x is None:
            return None
        n = x.model.numel()
        divs = [d for d in range(1, n + 1) if n % d == 0]
        d = divs[a[1] % len(divs)]
        shape = [d, n // d] if a[2] % 3 else [n // d, -1]
        if a[2] % 5 == 0:
            shape = [n]
        return self._reshape(x, shape, must=False, view=bool(a[3] % 4 == 0), name='reshape_any')

    def op_clone(self, a):
        x = self.pick(a[0])
        if x is None:
            return None
        self.result('clone', x.pt.clone(), x.model.clone(), x.sig)
        return 'clone'

    def op_relayout(self, a):
        """the same tensor over the same PhysicalAxis objects, stored with its physical axes in another order (the public
        constructor, as a caller would after physical.permute(...)): equal vaxes, permuted paxes"""
        x = self.pick(a[0], lambda v: len(v.pt.paxes) >= 2)
        if x is None:
            return None
        n = len(x.pt.paxes)
        perm = Stream(a[1] * 65536 + a[2], 'relayout').perm(n)
        if perm == list(range(n)):
            perm = perm[1:] + perm[:1]
        ph = x.pt.physical.permute(*perm)
        if a[3] % 2:
            ph = ph.clone(memory_format=torch.contiguous_format)
        pt = self.IX.PatternedTensor(ph, tuple(x.pt.paxes[i] for i in perm), tuple(x.pt.vaxes), x.pt.default)
        # a permuted view shares storage with x; a contiguous copy does not
        self.result('relayout', pt, x.model.clone(), x.sig, alias=None if a[3] % 2 else x.alias)
        self.c.inc('probe.relayout-shares-axes')
        return 'relayout'

    def op_detach(self, a):
        x = self.pick(a[0])
        if x is None:
            return None
        self.result('detach', x.pt.detach(), x.model.detach(), x.sig, alias=x.alias)
        return 'detach'

    def op_freshen(self, a):
        x = self.pick(a[0])
        if x is None:
            return None
        self.result('freshen', x.pt.freshen(), x.model, x.sig, alias=x.alias)
        return 'freshen'

    def op_copy_(self, a):
        x = self.pick(a[0])
        if x is None:
            return None
        part = self.live(lambda v: v is not x and tuple(v.model.shape) == tuple(x.model.shape) and v.model.dtype == x.model.dtype and v.alias != x.alias and not self.shares_storage(v, x))
        if not part:
            return None
        y = part[a[1] % len(part)]
        x.pt.copy_(y.pt)
        x.model = y.model.clone()
        x.sig = copy.deepcopy(y.sig)
        self.retire_aliases(x)
        if not same(x.pt.to_dense(), x.model):
            V('denotation', ['copy_'], f'after copy_: {x.pt.to_dense().tolist()} vs {x.model.tolist()}')
        bad = check_invariant(self.IX, x.pt)
        if bad:
            V('representation-invariant', ['copy_', bad[0]], bad[1])
        # destination and source must be independent afterwards: mutate the destination, the source must keep its value
        if a[2] % 2 and x.model.dtype.is_floating_point and self.writable(x):
            x.pt.neg_()
            x.model = x.model.neg()
            self.c.inc('probe.copy_-then-mutate')
        return 'copy_'

    def op_imul_t(self, a, div=False):
        x = self.pick(a[0], lambda v: self.floats(v))
        if x is None:
            return None
        part = self.live(lambda v: v.sig == x.sig and self.floats(v) and v.alias != x.alias and not self.shares_storage(v, x))
        if not part:
            return None
        y = part[a[1] % len(part)]
        pt = x.pt
        if div:
            pt /= y.pt
            x.model = x.model / y.model
        else:
            pt *= y.pt
            x.model = x.model * y.model
        if pt is not x.pt:
            V('in-place-identity', ['itruediv_t' if div else 'imul_t'], 'in-place operator returned another object')
        self.retire_aliases(x)
        ok = same_div(x.pt.to_dense(), x.model, y.model == 0) if div else same(x.pt.to_dense(), x.model, exact=True)
        if not ok:
            V('denotation', ['itruediv_t' if div else 'imul_t'], f'{x.pt.to_dense().tolist()} vs {x.model.tolist()}')
        x.model = x.pt.to_dense().clone()
        return 'itruediv_t' if div else 'imul_t'

    def op_itruediv_t(self, a):
        return self.op_imul_t(a, div=True)

    def shared_axes(self, v):
        fv = []
        for e in v.pt.vaxes:
            axis_fv(self.IX, e, fv)
        return len({id(k) for k in fv}) < len(fv)

    def op_default_to(self, a):
        x = self.pick(a[0], self.shared_axes) if a[2] % 2 else None
        x = x or self.pick(a[0])
        if x is None:
            return None
        d = [0.0, 1.0, float('-inf'), float('inf'), -2.5][a[1] % 5] if x.model.dtype.is_floating_point else bool(a[1] % 2)
        r = x.pt.default_to(d)
        self.result('default_to', r, x.model, x.sig, alias=x.alias)
        if r.default != d and not (r.default != r.default and d != d):
            V('default_to', ['default-not-set'], f'default is {r.default}, asked for {d}')
        return 'default_to'

    def op_dim_to_dense(self, a):
        x = self.pick(a[0], lambda v: v.model.ndim >= 1)
        if x is None:
            return None
        d = a[1] % x.model.ndim
        r = x.pt.dim_to_dense(d)
        self.result('dim_to_dense', r, x.model, x.sig, alias=x.alias)
        e = r.vaxes[d]
        if not (isinstance(e, self.IX.PhysicalAxis) or e == self.IX.unitAxis):
            V('dim_to_dense', ['axis-not-dense'], f'axis {d} is {e}')
        others = []
        for i, f in enumerate(r.vaxes):
            if i != d:
                axis_fv(self.IX, f, others)
        if isinstance(e, self.IX.PhysicalAxis) and any(k is e for k in others):
            V('dim_to_dense', ['axis-not-independent'], f'axis {d} is shared with another dimension')
        return 'dim_to_dense'

    def op_to_dense(self, a):
        x = self.pick(a[0])
        if x is None:
            return None
        d = x.pt.to_dense()
        if not same(d, x.model):
            V('denotation', ['to_dense'], f'{d.tolist()} vs {x.model.tolist()}')
        # to_dense returns storage of its own
        if d.numel() and x.model.dtype.is_floating_point:
            d.add_(1.0)
            if not same(x.pt.to_dense(), x.model):
                V('to_dense', ['aliases-source'], 'writing into the result of to_dense changed the tensor')
        return 'to_dense'

    def op_cast_chain(self, a):
        """short compositions through dtype casts: the default has to be cast like the elements"""
        x = self.pick(a[0], lambda v: self.floats(v) and bool(torch.isfinite(v.model).all()) and math.isfinite(v.pt.default)
                      and abs(v.pt.default) < 1e6 and (v.model.numel() == 0 or float(v.model.abs().max()) < 1e6))
        if x is None:
            return None
        k = a[1] % 3
        if k == 0:
            r = x.pt.to(torch.bool).to(torch.float64)
            m = x.model.to(torch.bool).to(torch.float64)
        elif k == 1:
            r = x.pt.to(torch.long).mul(2)
            m = x.model.to(torch.long).mul(2)
        else:
            r = x.pt.to(torch.long).to(torch.float64).add(0.5)
            m = x.model.to(torch.long).to(torch.float64).add(0.5)
        self.result('cast_chain', r, m, x.sig)
        return 'cast_chain'

    def op_project_own(self, a):
        """project onto a pattern written over the tensor's OWN physical axes, arranged differently (two equal-sized
        axes swapped everywhere): the result is indexed by the given paxes"""
        IX = self.IX
        x = self.pick(a[0], lambda v: len(v.pt.paxes) >= 2)
        if x is None:
            return None
        ps = list(x.pt.paxes)
        pairs = [(i, j) for i in range(len(ps)) for j in range(i + 1, len(ps)) if ps[i].numel() == ps[j].numel()]
        if not pairs:
            return None
        i, j = pairs[a[1] % len(pairs)]
        sw = {id(ps[i]): ps[j], id(ps[j]): ps[i]}

        def rebuild(e):
            if isinstance(e, IX.PhysicalAxis):
                return sw.get(id(e), e)
            if isinstance(e, IX.ProductAxis):
                return IX.productAxis(rebuild(f) for f in e.factors)
            return IX.SumAxis(e.before, rebuild(e.term), e.after)
        vaxes = tuple(rebuild(e) for e in x.pt.vaxes)
        got = x.pt.project(tuple(ps), vaxes)
        psizes = [k.numel() for k in ps]
        want = torch.empty(psizes, dtype=x.model.dtype)
        for idx in itertools.product(*[range(n) for n in psizes]):
            pidx = {k: v for k, v in zip(ps, idx)}
            v = tuple(axis_eval(IX, e, pidx) for e in vaxes)
            want[idx] = x.model[v]
        if not same(got, want):
            V('denotation', ['project', 'own-axes'], f'project over the tensor\'s own axes: {got.tolist()} vs {want.tolist()}; vaxes={vaxes}')
        return 'project_own'

    def op_project(self, a):
        """project onto a random sub-pattern of the same shape: gather through an independently evaluated axis map"""
        x = self.pick(a[0])
        if x is None:
            return None
        g = Stream(a[1] * 65536 + a[2], 'proj')
        spec = gen_leaf(g, x.sig, 'bool' if x.model.dtype == torch.bool else 'float64')
        tmpl = TR.mk_patterned(spec, torch.bool if x.model.dtype == torch.bool else torch.float64)   # only its axes are used
        got = x.pt.project(tmpl.paxes, tmpl.vaxes)
        # reference: element at physical index p of the template is the model element at the virtual index p maps to
        psizes = [k.numel() for k in tmpl.paxes]
        want = torch.empty(psizes, dtype=x.model.dtype)
        for idx in itertools.product(*[range(s) for s in psizes]):
            pidx = {k: i for k, i in zip(tmpl.paxes, idx)}
            v = tuple(axis_eval(self.IX, e, pidx) for e in tmpl.vaxes)
            want[idx] = x.model[v]
        if not same(got, want):
            V('denotation', ['project'], f'project: {got.tolist()} vs {want.tolist()}; onto vaxes={tmpl.vaxes}')
        return 'project'

    def run(self):
        IX = self.IX
        orig = IX.PatternedTensor.__post_init__
        built = self

        def post(pt_self):
            orig(pt_self)
            built.built.append(pt_self)
        IX.PatternedTensor.__post_init__ = post
        try:
            self.setup()
            for v in self.vars:
                bad = check_invariant(IX, v.pt)
                if bad:
                    raise RuntimeError('leaf violates the representation invariant: ' + str(bad))
            self.check_all('setup')
            for op in self.case['ops']:
                self.step(op)
        finally:
            IX.PatternedTensor.__post_init__ = orig


def execute(case):
    viol = []
    with Env(case['env']) as env:
        m = Machine(case, env)
        try:
            m.run()
        except Violation as v:
            viol.append(v.to_json())
        counters = dict(env.c)
    import hashlib
    shape = hashlib.sha256(json.dumps([case['sigs'], case['leaves'], [[o['op']] + o['a'] for o in case['ops']]], sort_keys=True).encode()).hexdigest()[:16]
    return {'violations': viol, 'counters': counters, 'digest': m.log.digest(), 'shape': shape, 'steps': m.nops,
            'nontrivial': m.nops >= 5 and m.nonDense}
