"""Minimisation (own ddmin): shrink the workload spec, the op list and the fault list of a
failing case while the *same violation signature* persists."""
import copy


def _get(case, path):
    x = case
    for p in path:
        x = x[p]
    return x


def _set(case, path, val):
    x = case
    for p in path[:-1]:
        x = x[p]
    x[path[-1]] = val


def list_reductions(case, path, min_len=0):
    """ddmin-style candidates for the list at `path`: drop chunks (halves, quarters, ...), then singles."""
    lst = _get(case, path)
    n = len(lst)
    if n <= min_len:
        return
    chunk = n // 2
    while chunk >= 1:
        i = 0
        while i < n:
            new = lst[:i] + lst[i + chunk:]
            if len(new) >= min_len and len(new) < n:
                c = copy.deepcopy(case)
                _set(c, path, copy.deepcopy(new))
                yield c
            i += chunk
        if chunk == 1:
            break
        chunk //= 2


def shrink(execute, reducers, case, signature, budget=300):
    """execute(case) -> result dict with 'violations'; keep candidate iff a violation with
    the same signature is still reported."""
    def fails(c):
        try:
            r = execute(c)
        except Exception:
            return False
        return any(v['signature'] == signature for v in r.get('violations', []))

    best = case
    used = 0
    improved = True
    while improved and used < budget:
        improved = False
        try:
            cands = list(reducers(best))
        except Exception:
            break
        for cand in cands:
            used += 1
            if fails(cand):
                best = cand
                improved = True
                break
            if used >= budget:
                break
    return best, used
