"""Shared plumbing: violations, counters, digests, the repo import guard."""
import hashlib
import json
import os
import sys

REPO = os.environ.get('FGGS_REPO', '/repo')
GUARD = 'FGGS_VERIF'


def import_repo():
    """Import the real fggs from /repo's working tree (never a copy)."""
    if os.environ.get(GUARD) != '1':
        raise RuntimeError('simulator seams are installed only when FGGS_VERIF=1')
    if sys.path[0] != REPO:
        sys.path.insert(0, REPO)
    import fggs  # noqa
    f = os.path.realpath(fggs.__file__)
    if not f.startswith(os.path.realpath(REPO) + os.sep):
        raise RuntimeError(f'fggs imported from {f}, expected under {REPO}')
    return fggs


class Violation(Exception):
    """A property clause observed false. signature = (property, clause, *features)."""

    def __init__(self, prop, clause, features=(), detail=''):
        self.prop = prop
        self.clause = clause
        self.features = tuple(str(f) for f in features)
        self.detail = detail
        super().__init__(f'{prop}/{clause}{list(self.features)}: {detail}')

    @property
    def signature(self):
        return [self.prop, self.clause] + list(self.features)

    def to_json(self):
        return {'property': self.prop, 'clause': self.clause, 'features': list(self.features),
                'signature': self.signature, 'detail': self.detail[:2000]}


class Discard(Exception):
    """Workload rejected by a stated precondition (not a violation, not an error)."""


class Counters(dict):
    def inc(self, k, n=1):
        self[k] = self.get(k, 0) + n

    def merge(self, other):
        for k, v in other.items():
            self[k] = self.get(k, 0) + v


class Log:
    """Event log with rolling digest. Never draws randomness, never reads a clock."""

    def __init__(self, keep=True):
        self.h = hashlib.sha256()
        self.n = 0
        self.events = [] if keep else None

    def add(self, *ev):
        s = json.dumps(ev, sort_keys=True, default=str)
        self.h.update(s.encode())
        self.h.update(b'\n')
        self.n += 1
        if self.events is not None:
            self.events.append(ev)

    def digest(self):
        return self.h.hexdigest()[:24]


def jdump(obj, path):
    tmp = path + '.tmp'
    with open(tmp, 'w') as f:
        json.dump(obj, f, indent=1, sort_keys=True, default=str)
        f.write('\n')
    os.replace(tmp, path)


def excname(e):
    return type(e).__name__
