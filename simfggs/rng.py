"""One integer decides everything: named, independent PRNG streams derived from a seed.

A stream is keyed by (seed, name parts...).  Operation-level streams are keyed by the
operation's stable uid, so deleting an operation while minimising does not shift the
choices of the remaining ones.  Nothing here reads a clock or global state.
"""
import hashlib
import random


def derive(seed, *names):
    h = hashlib.blake2b(repr((int(seed),) + tuple(names)).encode(), digest_size=8).digest()
    return int.from_bytes(h, 'big')


class Stream(random.Random):
    def __init__(self, seed, *names):
        super().__init__(derive(seed, *names))
        self.key = (seed,) + names

    def chance(self, p):
        return self.random() < p

    def pick(self, seq):
        return seq[self.randrange(len(seq))]

    def weighted(self, pairs):
        """pairs: [(item, weight)]"""
        tot = sum(w for _, w in pairs)
        x = self.random() * tot
        for it, w in pairs:
            x -= w
            if x < 0:
                return it
        return pairs[-1][0]

    def perm(self, n):
        p = list(range(n))
        self.shuffle(p)
        return p
