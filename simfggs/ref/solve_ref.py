"""Least solution of x = A x + b over the four semirings (dense numpy, float64), by structure:
SCCs of the support graph, spectral radius per SCC, infinity propagated along dependencies.
Returns None when the instance is numerically too close to the radius of convergence to call."""
import numpy as np

np.seterr(over='ignore', invalid='ignore', divide='ignore')


def _sccs(n, dep):
    """dep[i] = set of j that x_i depends on. returns components in dependency order (callees first)"""
    reach = [[i == j or j in dep[i] for j in range(n)] for i in range(n)]
    for k in range(n):
        for i in range(n):
            if reach[i][k]:
                ri, rk = reach[i], reach[k]
                for j in range(n):
                    if rk[j]:
                        ri[j] = True
    comp_of = {}
    comps = []
    for i in range(n):
        if i in comp_of:
            continue
        c = [j for j in range(n) if reach[i][j] and reach[j][i]]
        for j in c:
            comp_of[j] = len(comps)
        comps.append(c)
    order = []
    done = set()

    def visit(ci):
        if ci in done:
            return
        done.add(ci)
        for i in comps[ci]:
            for j in dep[i]:
                if comp_of[j] != ci:
                    visit(comp_of[j])
        order.append(comps[ci])
    for ci in range(len(comps)):
        visit(ci)
    return order


def solve_real(A, b):
    """A (n,n) >= 0, b (n,) or (n,m) >= 0, entries may be inf. returns x or None (too close to call)"""
    A = np.asarray(A, dtype=np.float64)
    b = np.asarray(b, dtype=np.float64)
    if b.ndim == 2:
        cols = [solve_real(A, b[:, k]) for k in range(b.shape[1])]
        if any(c is None for c in cols):
            return None
        return np.stack(cols, axis=1) if cols else np.zeros_like(b)
    n = A.shape[0]
    dep = [set(j for j in range(n) if A[i, j] > 0) for i in range(n)]
    x = np.zeros(n)
    for C in _sccs(n, dep):
        Cs = set(C)
        c = np.zeros(len(C))
        for a_, i in enumerate(C):
            v = b[i]
            for j in dep[i]:
                if j not in Cs:
                    t = A[i, j] * x[j]
                    if np.isnan(t):
                        t = 0.0
                    v = v + t
            c[a_] = v
        Acc = A[np.ix_(C, C)]
        if not (c > 0).any():
            x[C] = 0.0
            continue
        if not (Acc > 0).any():
            x[C] = c
            continue
        if np.isinf(c).any() or np.isinf(Acc).any():
            x[C] = np.inf
            continue
        # exact rho == 1 for weighted cycles
        rho = max(abs(np.linalg.eigvals(Acc)))
        rows_single = all((Acc[r] > 0).sum() == 1 for r in range(len(C)))
        if rows_single and all((Acc[:, r] > 0).sum() == 1 for r in range(len(C))):
            prod = float(np.prod(Acc[Acc > 0]))
            if prod >= 1.0:
                x[C] = np.inf
                continue
            if prod > 0.97 ** len(C):
                return None
        elif 0.97 < rho < 1.03:
            return None
        elif rho >= 1.03:
            x[C] = np.inf
            continue
        M = np.eye(len(C)) - Acc
        if np.linalg.cond(M) > 1e7:
            return None
        x[C] = np.linalg.solve(M, c)
    return x


def solve_log(A, b):
    x = solve_real(np.exp(np.asarray(A, dtype=np.float64)), np.exp(np.asarray(b, dtype=np.float64)))
    return None if x is None else np.log(x)


def solve_bool(A, b):
    A = np.asarray(A, dtype=bool)
    x = np.asarray(b, dtype=bool).copy()
    for _ in range(A.shape[0] + 1):
        if x.ndim == 1:
            y = x | (A & x[None, :]).any(axis=1)
        else:
            y = x | (A[:, :, None] & x[None, :, :]).any(axis=1)
        if (y == x).all():
            break
        x = y
    return x


def _mp_mv(A, x):
    """max-plus matrix-vector with (-inf) + (+inf) = -inf"""
    t = A + x[None, :]
    t = np.where(np.isnan(t), -np.inf, t)
    t = np.where(np.isneginf(A) | np.isneginf(x[None, :]), -np.inf, t)
    return t.max(axis=1) if t.shape[1] else np.full(A.shape[0], -np.inf)


def solve_viterbi(A, b):
    """max-plus least solution: best path weight, +inf where a positive-weight cycle is usable"""
    A = np.asarray(A, dtype=np.float64)
    b = np.asarray(b, dtype=np.float64)
    if b.ndim == 2:
        return np.stack([solve_viterbi(A, b[:, k]) for k in range(b.shape[1])], axis=1) if b.shape[1] else b.copy()
    n = A.shape[0]
    x = b.copy()
    for _ in range(n):
        x = np.maximum(x, _mp_mv(A, x))
    # anything that still improves sits on / behind a positive cycle: +inf, propagated
    for _ in range(n + 1):
        y = np.maximum(x, _mp_mv(A, x))
        grew = y > x + 1e-12 * np.maximum(1.0, np.abs(x))
        if not grew.any():
            break
        x = np.where(grew, np.inf, y)
    return x


def solve(semiring, A, b):
    return {'real': solve_real, 'log': solve_log, 'viterbi': solve_viterbi, 'bool': solve_bool}[semiring](A, b)


def matvec(semiring, A, v):
    A = np.asarray(A)
    v = np.asarray(v)
    if semiring == 'real':
        t = A * v[None, :]
        return np.where(np.isnan(t), 0.0, t).sum(axis=1)
    if semiring == 'bool':
        return (A & v[None, :]).any(axis=1)
    if semiring == 'viterbi':
        return _mp_mv(A, v)
    t = A + v[None, :]
    t = np.where(np.isnan(t), -np.inf, t)
    t = np.where(np.isneginf(A) | np.isneginf(v[None, :]), -np.inf, t)
    m = t.max(axis=1) if t.shape[1] else np.full(A.shape[0], -np.inf)
    ms = np.where(np.isfinite(m), m, 0.0)
    return np.where(np.isposinf(m), np.inf, ms + np.log(np.exp(t - ms[:, None]).sum(axis=1)) if t.shape[1] else m)
