"""Exact treewidth by subset dynamic programming (n <= ~10) and a tree-decomposition validity checker."""
from functools import lru_cache


def treewidth(n, edges):
    if n == 0:
        return -1 if False else 0
    adj = [0] * n
    for u, v in edges:
        if u != v:
            adj[u] |= 1 << v
            adj[v] |= 1 << u

    def q(S, v):
        """number of vertices outside S+{v} adjacent to the component of v in G[S+{v}]"""
        seen = 1 << v
        todo = [v]
        out = 0
        while todo:
            x = todo.pop()
            nb = adj[x]
            out |= nb & ~S & ~(1 << v)
            new = nb & S & ~seen
            while new:
                b = new & -new
                new ^= b
                seen |= b
                todo.append(b.bit_length() - 1)
        return bin(out & ~seen).count('1')
    full = (1 << n) - 1
    tw = {0: -1}
    # TW(S) = min_{v in S} max(TW(S - v), q(S - v, v)): width of the best elimination of S first
    for S in range(1, full + 1):
        best = n
        T = S
        while T:
            b = T & -T
            T ^= b
            v = b.bit_length() - 1
            R = S & ~b
            cand = max(tw[R], q(R, v))
            if cand < best:
                best = cand
        tw[S] = best
    return max(tw[full], 0)


def order_width(n, edges, order):
    """width of an elimination order, recomputed independently"""
    adj = {v: set() for v in range(n)}
    for u, v in edges:
        if u != v:
            adj[u].add(v)
            adj[v].add(u)
    w = 0
    for v in order:
        nb = adj[v]
        w = max(w, len(nb))
        for a in nb:
            adj[a] |= nb - {a}
            adj[a].discard(v)
        del adj[v]
    return w


def check_decomposition(td, vertices, edges):
    """td: {bag(frozenset): set of neighbour bags}. returns list of (clause, detail)."""
    bad = []
    bags = list(td.keys())
    if not bags:
        return [('no-bags', 'empty decomposition')]
    for b in bags:
        for nb in td[b]:
            if nb not in td:
                bad.append(('tree-dangling-neighbour', f'{sorted(map(str, nb))}'))
            elif b not in td[nb]:
                bad.append(('tree-asymmetric', ''))
            if nb == b:
                bad.append(('tree-self-loop', ''))
    if bad:
        return bad
    nedges = sum(len(td[b]) for b in bags) // 2
    seen = {bags[0]}
    todo = [bags[0]]
    while todo:
        x = todo.pop()
        for y in td[x]:
            if y not in seen:
                seen.add(y)
                todo.append(y)
    if len(seen) != len(bags):
        bad.append(('tree-not-connected', f'{len(seen)} of {len(bags)} bags reachable'))
    if nedges != len(bags) - 1:
        bad.append(('tree-has-cycle' if nedges > len(bags) - 1 else 'tree-not-connected', f'{len(bags)} bags, {nedges} tree edges'))
    allv = set()
    for b in bags:
        allv |= set(b)
    vs = set(vertices)
    if not vs <= allv:
        bad.append(('vertex-not-covered', f'{sorted(map(str, vs - allv))}'))
    if not allv <= vs:
        bad.append(('foreign-vertex', f'{sorted(map(str, allv - vs))}'))
    for u, v in edges:
        if u != v and not any(u in b and v in b for b in bags):
            bad.append(('edge-not-covered', f'{u}-{v}'))
    for v in vs:
        holding = [b for b in bags if v in b]
        if not holding:
            continue
        s = {holding[0]}
        todo = [holding[0]]
        while todo:
            x = todo.pop()
            for y in td[x]:
                if v in y and y not in s:
                    s.add(y)
                    todo.append(y)
        if len(s) != len(holding):
            bad.append(('running-intersection', f'bags containing {v} are not connected'))
    return bad


def width(td):
    return max((len(b) for b in td), default=0) - 1
