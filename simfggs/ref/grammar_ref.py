"""Reference semantics of an abstract grammar spec: small, slow, obviously right.

No einsum, no patterns, no SCCs: every rule is evaluated by enumerating all assignments of
its nodes (numpy broadcasting over one axis per node).  Semirings:
  real    : (+, x) on [0, inf] with 0 x inf = 0
  log     : log of the real result
  viterbi : (max, +) on log-weights with (-inf) + (+inf) = -inf
  bool    : (or, and) on the support
"""
import itertools
import math

import numpy as np

np.seterr(over='ignore', invalid='ignore', divide='ignore')

from ..gen.grammars import dom_size


def weights_array(spec, name):
    t = spec['terms'][name]
    shape = [dom_size(spec['domains'][nl]) for nl in t['type']]
    return np.array(t['weights'], dtype=np.float64).reshape(shape)


class Sem:
    def __init__(self, name):
        self.name = name

    def lift(self, w):
        """real weights -> carrier"""
        if self.name in ('real', 'log'):
            return np.array(w, dtype=np.float64)
        if self.name == 'viterbi':
            with np.errstate(divide='ignore'):
                return np.log(np.array(w, dtype=np.float64))
        return np.array(w, dtype=np.float64) > 0

    def zero(self, shape):
        if self.name in ('real', 'log'):
            return np.zeros(shape)
        if self.name == 'viterbi':
            return np.full(shape, -np.inf)
        return np.zeros(shape, dtype=bool)

    def one(self):
        if self.name in ('real', 'log'):
            return np.float64(1.0)
        if self.name == 'viterbi':
            return np.float64(0.0)
        return np.bool_(True)

    def mul(self, a, b):
        if self.name in ('real', 'log'):
            with np.errstate(invalid='ignore'):
                r = a * b
            return np.where(np.isnan(r), 0.0, r)
        if self.name == 'viterbi':
            with np.errstate(invalid='ignore'):
                r = a + b
            return np.where(np.isnan(r), -np.inf, r)
        return a & b

    def add(self, a, b):
        if self.name in ('real', 'log'):
            return a + b
        if self.name == 'viterbi':
            return np.maximum(a, b)
        return a | b

    def sum(self, a, axes):
        if not axes:
            return a
        if self.name in ('real', 'log'):
            return a.sum(axis=axes)
        if self.name == 'viterbi':
            return a.max(axis=axes) if all(a.shape[i] > 0 for i in axes) else np.full(
                [s for i, s in enumerate(a.shape) if i not in axes], -np.inf)
        return a.any(axis=axes)

    def out(self, a):
        """carrier -> what the library's semiring of the same name returns"""
        if self.name == 'log':
            with np.errstate(divide='ignore'):
                return np.log(a)
        return a


class GrammarRef:
    def __init__(self, spec, semiring='real'):
        self.spec = spec
        self.sem = Sem(semiring)
        self.W = {n: self.sem.lift(weights_array(spec, n)) for n in spec['terms']}
        self.shape = {nt: tuple(dom_size(spec['domains'][nl]) for nl in d['type']) for nt, d in spec['nts'].items()}

    def zero(self):
        return {nt: self.sem.zero(self.shape[nt]) for nt in self.spec['nts']}

    def rule_value(self, r, x):
        """tensor over the rule's external positions"""
        sem, spec = self.sem, self.spec
        nodes = r['nodes']
        n = len(nodes)
        sizes = [dom_size(spec['domains'][v['label']]) for v in nodes]
        total = np.broadcast_to(sem.one(), sizes).copy() if n else np.array(sem.one())
        for e in r['edges']:
            w = self.W[e['label']] if e['label'] in self.W else x[e['label']]
            idx = []
            for k in e['att']:
                sh = [1] * n
                sh[k] = sizes[k]
                idx.append(np.arange(sizes[k]).reshape(sh))
            wv = w[tuple(idx)] if idx else w
            total = sem.mul(total, np.broadcast_to(wv, sizes) if n else wv)
        ext = r['ext']
        distinct = []
        for k in ext:
            if k not in distinct:
                distinct.append(k)
        summed = tuple(i for i in range(n) if i not in distinct)
        red = sem.sum(total, summed)
        # axes of red are the kept nodes in increasing node order; reorder to `distinct` order
        kept = [i for i in range(n) if i in distinct]
        red = np.transpose(red, [kept.index(k) for k in distinct]) if distinct else red
        if len(distinct) == len(ext):
            return red
        # a node repeated among the externals: value sits on the diagonal
        oshape = [sizes[k] for k in ext]
        out = sem.zero(oshape)
        for pos in itertools.product(*[range(s) for s in oshape]):
            val = {}
            ok = True
            for k, p in zip(ext, pos):
                if val.setdefault(k, p) != p:
                    ok = False
                    break
            if ok:
                out[pos] = red[tuple(val[k] for k in distinct)]
        return out

    def F(self, x):
        out = self.zero()
        for r in self.spec['rules']:
            out[r['lhs']] = self.sem.add(out[r['lhs']], self.rule_value(r, x))
        return out

    def kleene(self, n):
        x = self.zero()
        for _ in range(n):
            x = self.F(x)
        return x

    def lfp(self, max_iter=5000, rtol=1e-13):
        """iterate from zero to stability; exact in bool/viterbi when it stabilises.
        returns (x, steps, converged)"""
        x = self.zero()
        for k in range(1, max_iter + 1):
            y = self.F(x)
            if self.close(x, y, rtol):
                return y, k, True
            x = y
        return x, max_iter, False

    def close(self, x, y, rtol):
        for nt in x:
            a, b = x[nt], y[nt]
            if self.sem.name == 'bool':
                if not np.array_equal(a, b):
                    return False
            else:
                with np.errstate(invalid='ignore'):
                    same = (a == b)
                    d = np.abs(a - b)
                with np.errstate(invalid='ignore'):
                    ok = same | (np.isfinite(a) & np.isfinite(b) & (d <= rtol * np.maximum(np.abs(a), np.abs(b))))
                if not ok.all():
                    return False
        return True

    def result(self, x=None):
        if x is None:
            x, _, _ = self.lfp()
        return {nt: self.sem.out(v) for nt, v in x.items()}


# ---------------------------------------------------------------- derivation trees (C15, C17)

def nt_edges(spec, r):
    return [i for i, e in enumerate(r['edges']) if e['label'] in spec['nts']]


def derivations(spec, nt, depth, limit=2000):
    """all derivation trees of height <= depth rooted at nt, as (rule index, (child trees...)) with
    children in the order of the rule's nonterminal edges.  Truncated at `limit` trees."""
    memo = {}

    def go(nt, d):
        key = (nt, d)
        if key in memo:
            return memo[key]
        out = []
        if d > 0:
            for ri, r in enumerate(spec['rules']):
                if r['lhs'] != nt:
                    continue
                kids = [go(r['edges'][i]['label'], d - 1) for i in nt_edges(spec, r)]
                n = 1
                for k in kids:
                    n *= len(k)
                if n == 0:
                    continue
                for combo in itertools.islice(itertools.product(*kids), limit):
                    out.append((ri, tuple(combo)))
                    if len(out) >= limit:
                        break
                if len(out) >= limit:
                    break
        memo[key] = out
        return out
    return go(nt, depth)


def count_derivations(spec, nt, depth):
    memo = {}

    def go(nt, d):
        if d == 0:
            return 0
        key = (nt, d)
        if key not in memo:
            tot = 0
            for r in spec['rules']:
                if r['lhs'] != nt:
                    continue
                p = 1
                for i in nt_edges(spec, r):
                    p *= go(r['edges'][i]['label'], d - 1)
                    if p == 0:
                        break
                tot += p
            memo[key] = tot
        return memo[key]
    return go(nt, depth)


def tree_size(t):
    return 1 + sum(tree_size(c) for c in t[1])


def min_heights(spec):
    """least height of a derivation tree per nonterminal (inf if unproductive)"""
    h = {nt: math.inf for nt in spec['nts']}
    changed = True
    while changed:
        changed = False
        for r in spec['rules']:
            kids = [h[r['edges'][i]['label']] for i in nt_edges(spec, r)]
            v = 1 + (max(kids) if kids else 0)
            if v < h[r['lhs']]:
                h[r['lhs']] = v
                changed = True
    return h


def random_tree(spec, nt, g, depth, budget):
    """a random derivation tree of height <= depth with roughly <= budget[0] instances, or None"""
    h = min_heights(spec)

    def rule_h(r):
        kids = [h[r['edges'][i]['label']] for i in nt_edges(spec, r)]
        return 1 + (max(kids) if kids else 0)

    def go(nt, d):
        cands = [(ri, r) for ri, r in enumerate(spec['rules']) if r['lhs'] == nt and rule_h(r) <= d]
        if not cands:
            return None
        if budget[0] <= 0:
            m = min(rule_h(r) for _, r in cands)
            cands = [c for c in cands if rule_h(c[1]) == m]
        else:
            big = [c for c in cands if nt_edges(spec, c[1])]
            if big and g.random() < 0.75:
                cands = big
        ri, r = cands[g.randrange(len(cands))]
        budget[0] -= 1
        kids = []
        for i in nt_edges(spec, r):
            k = go(r['edges'][i]['label'], d - 1)
            if k is None:
                return None
            kids.append(k)
        return [ri, kids]
    return go(nt, depth)
