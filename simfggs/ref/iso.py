"""Labelled hypergraph isomorphism with ordered attachments (networkx VF2 on the incidence graph)."""
import networkx as nx
from networkx.algorithms import isomorphism as nxiso


def incidence(nodes, edges, ext=()):
    """nodes: {key: label}; edges: [(label, [node keys...])]; ext: [node keys] (ordered)"""
    G = nx.MultiGraph()
    for k, lab in nodes.items():
        G.add_node(('n', k), kind='n', lab=repr(lab))
    for i, (lab, att) in enumerate(edges):
        G.add_node(('e', i), kind='e', lab=repr(lab) + '/%d' % len(att))
        for pos, k in enumerate(att):
            G.add_edge(('e', i), ('n', k), pos=pos)
    if ext:
        G.add_node(('x',), kind='x', lab='ext/%d' % len(ext))
        for pos, k in enumerate(ext):
            G.add_edge(('x',), ('n', k), pos=pos)
    return G


def isomorphic(a, b):
    if a.number_of_nodes() != b.number_of_nodes() or a.number_of_edges() != b.number_of_edges():
        return False
    nm = nxiso.categorical_node_match(['kind', 'lab'], [None, None])
    em = nxiso.categorical_multiedge_match('pos', None)
    return nxiso.MultiGraphMatcher(a, b, node_match=nm, edge_match=em).is_isomorphic()


def graph_incidence(g, node_extra=None):
    """incidence graph of a real fggs Graph"""
    nodes = {n.id: (n.label.name, None if node_extra is None else node_extra(n)) for n in g.nodes()}
    edges = [((e.label.name, e.label.is_terminal, tuple(l.name for l in e.label.type)), [v.id for v in e.nodes]) for e in g.edges()]
    return incidence(nodes, edges, [v.id for v in g.ext])
