"""The dense tensor a pattern spec denotes, computed independently of the library:
enumerate physical index tuples, evaluate the axis expressions, write the element."""
import itertools

import torch

from ..gen.patterns import axis_numel


def _shape_of(nested):
    sh = []
    x = nested
    while isinstance(x, list):
        sh.append(len(x))
        if not x:
            break
        x = x[0]
    return sh


def eval_axis(ax, pidx, psizes):
    """virtual index along one axis for physical index tuple pidx"""
    if isinstance(ax, int):
        return pidx[ax]
    if isinstance(ax, list):
        v = 0
        for f in ax:
            v = v * axis_numel(f, psizes) + eval_axis(f, pidx, psizes)
        return v
    return ax['before'] + eval_axis(ax['term'], pidx, psizes)


def dense_of_spec(spec, dtype=None):
    """returns (dense tensor, multiplicity tensor): multiplicity > 1 means the spec is not injective"""
    dtype = dtype or torch.get_default_dtype()
    phys = torch.tensor(spec['physical'], dtype=dtype if not isinstance(_first(spec['physical']), bool) else torch.bool)
    expand = list(spec.get('expand') or [])
    psizes = expand + list(phys.shape)
    vaxes = spec.get('vaxes')
    if vaxes is None:
        vaxes = list(range(len(psizes)))
    shape = [axis_numel(a, psizes) for a in vaxes]
    default = spec.get('default', 0.0)
    dense = torch.full(shape, default, dtype=phys.dtype) if phys.dtype != torch.bool else torch.full(shape, bool(default), dtype=torch.bool)
    mult = torch.zeros(shape, dtype=torch.long)
    for pidx in itertools.product(*[range(s) for s in psizes]):
        v = tuple(eval_axis(a, pidx, psizes) for a in vaxes)
        val = phys[pidx[len(expand):]] if phys.ndim else phys
        dense[v] = val
        mult[v] += 1
    return dense, mult


def _first(x):
    while isinstance(x, list):
        if not x:
            return 0.0
        x = x[0]
    return x


def mk_patterned(spec, dtype=None):
    """build the real PatternedTensor of a spec with the library's own constructors (not json_to_weights)"""
    import sys
    IX = sys.modules['fggs.indices']
    dtype = dtype or torch.get_default_dtype()
    first = _first(spec['physical'])
    phys = torch.tensor(spec['physical'], dtype=torch.bool if isinstance(first, bool) else dtype)
    expand = list(spec.get('expand') or [])
    if expand:
        phys = phys.expand(*expand, *phys.shape)
    paxes = tuple(IX.PhysicalAxis(n) for n in phys.shape)
    vaxes = spec.get('vaxes')
    if vaxes is None:
        return IX.PatternedTensor(phys, paxes, paxes, spec.get('default', 0.0))

    def mk(ax):
        if isinstance(ax, int):
            return paxes[ax]
        if isinstance(ax, list):
            return IX.productAxis(mk(f) for f in ax)
        return IX.SumAxis(ax['before'], mk(ax['term']), ax['after'])
    return IX.PatternedTensor(phys, paxes, tuple(mk(a) for a in vaxes), spec.get('default', 0.0))
